# Sourced by setup.sh / check.sh: offline Go environment that can build /repo (go 1.24 module).
export GOFLAGS=-mod=mod GOPROXY=off
unset GOSUMDB GONOSUMDB GONOSUMCHECK GOTOOLCHAIN GOWORK
export GOWORK=off
VERIF_DIR=${VERIF_DIR:-/verif}
VERIF_REPO=${VERIF_REPO:-/repo}
export VERIF_DIR VERIF_REPO
GO=go
if ! (cd "$VERIF_REPO" && $GO list . >/dev/null 2>&1); then
  # fallback: the newer local toolchain
  export GOTOOLCHAIN=local
  GO=go1.26.8
fi
export GO
