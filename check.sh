#!/bin/bash
# usage: check.sh <Cxx> quick|thorough        run the monitors of one property against /repo's working tree
#        check.sh <Cxx> replay <file>         re-execute a recorded violating case
# exit 0 = held on everything explored, 1 = VIOLATION line(s) printed, 2 = inconclusive / infrastructure
set -u
cd "$(dirname "$0")" || exit 2
. ./env.sh
PROP=${1:?property id}; MODE=${2:-quick}
[ -n "${VERIF_TIER:-}" ] && [ "$MODE" != replay ] && MODE=$VERIF_TIER
mkdir -p "$VERIF_DIR/.work" "$VERIF_DIR/evidence"
W=$(mktemp -d "$VERIF_DIR/.work/$PROP.XXXXXX") || exit 2
trap 'rm -rf "$W"' EXIT
# module file pointing at the repository under test
sed "s#=> /repo#=> $VERIF_REPO#" harness/go.mod > "$W/go.mod"; cp harness/go.sum "$W/go.sum"
build() { # variant flags...
  local v=$1; shift
  (cd harness && $GO build -modfile="$W/go.mod" -tags verif "$@" -o "$W/verifcheck-$v" . ) > "$W/build-$v.log" 2>&1 || {
    echo "BUILD FAILED ($v):"; head -40 "$W/build-$v.log"; return 1; }
}
build plain || exit 2
"$W/verifcheck-plain" selfcheck > "$W/selfcheck.log" 2>&1 || { cat "$W/selfcheck.log"; echo "INCONCLUSIVE: reference-model self check failed"; exit 2; }
BUILDS=$("$W/verifcheck-plain" builds "$PROP") || { echo "unknown property $PROP"; exit 2; }
for v in $BUILDS; do
  case $v in
    plain) ;;
    race) build race -race -gcflags=all=-d=checkptr=0 || exit 2 ;;
    checkptr) build checkptr -gcflags=all=-d=checkptr || exit 2 ;;
  esac
done
if [ "$MODE" = replay ]; then
  "$W/verifcheck-plain" replay "${3:?replay file}"; exit $?
fi
"$W/verifcheck-plain" run "$PROP" "$MODE" "$W"
exit $?
