package main

func init() {
	register(&Property{
		ID: "C15", Level: "exploration", Builds: []string{"plain"},
		Rule:        "cases = generated bitmaps biased to the shapes named by the property (elements in chunks other than the first, adjacent full chunks, chunks full to their upper or lower edge, gaps between keys, keys 0 / 0xFFFE / 0xFFFF, all chunk kinds, 11 storage forms) x targets {every interval end +-1, chunk edges +-1, inside absent chunks, 0, 2^32-1, random}; NextValue/PreviousValue/NextAbsentValue/PreviousAbsentValue compared with the model. Plus ALL subsets of a boundary domain x all targets of the domain +-1. Non-trivial: non-empty bitmap; distinct = hash(set, form).",
		Assumptions: []string{"interval-set model validated by selfcheck"},
		Units: []Unit{
			{Name: "neighbours", Quick: 60000, Thorough: 3000000, Run: c15Neighbours},
			{Name: "universe-scale", Quick: 16, Thorough: 400, Run: c15Universe},
			{Name: "exhaustive-subsets", ExhaustiveN: func(string) int { return 256 * 3 }, RunIndexed: c15Exh},
		},
	})
}

func genNeighbourSet(r *Rng) (*ISet, string) {
	shape := []string{"generic", "generic", "adjacent-full", "full-to-upper", "full-to-lower", "gaps", "top", "all-full-prefix"}[r.Intn(8)]
	s := NewISet()
	switch shape {
	case "generic":
		m, _ := genSet(r, GenOpts{MaxChunks: 6, HeavyP: 0.4})
		return m, shape
	case "adjacent-full":
		k := genKeys(r, 1)[0]
		n := 1 + r.Range(0, 3)
		for i := uint64(0); i < n && k+i <= 0xFFFF; i++ {
			s.AddRange((k+i)<<16, (k+i)<<16|0xFFFF)
		}
		if r.Chance(0.5) {
			s.Remove(edgeVal32(r, s))
		}
		if r.Chance(0.5) && k > 0 {
			s.AddRange((k-1)<<16|r.Range(1, 65535), (k-1)<<16|0xFFFF)
		}
	case "full-to-upper":
		for _, k := range genKeys(r, 1+r.Intn(3)) {
			s.AddRange(k<<16|r.Range(0, 65535), k<<16|0xFFFF)
		}
	case "full-to-lower":
		for _, k := range genKeys(r, 1+r.Intn(3)) {
			s.AddRange(k<<16, k<<16|r.Range(0, 65535))
		}
	case "gaps":
		for _, k := range genKeys(r, 2+r.Intn(5)) {
			for _, v := range genChunk(r, lightArch[r.Intn(len(lightArch))]) {
				s.AddRange(k<<16|v.Lo, k<<16|v.Hi)
			}
		}
	case "top":
		s.AddRange(max32-r.Range(0, 140000), max32)
		if r.Chance(0.5) {
			s.Remove(max32 - r.Range(0, 70000))
		}
	case "all-full-prefix":
		s.AddRange(0, r.Range(0, 200000))
	}
	return s, shape
}

func neighbourChecks(c *Ctx, bm *BM, targets []uint64, sigp string) {
	b, m := bm.B, bm.M
	c.Guard(sigp+"neighbour", func() {
		for _, t := range targets {
			t &= max32
			want := func(v uint64, ok bool) int64 {
				if !ok {
					return -1
				}
				return int64(v)
			}
			if g, w := b.NextValue(uint32(t)), want(m.Next(t)); g != w {
				c.Fail(sigp+"NextValue", "NextValue(%d)=%d want %d (set %s)", t, g, w, m)
			}
			if g, w := b.PreviousValue(uint32(t)), want(m.Prev(t)); g != w {
				c.Fail(sigp+"PreviousValue", "PreviousValue(%d)=%d want %d (set %s)", t, g, w, m)
			}
			if g, w := b.NextAbsentValue(uint32(t)), want(m.NextAbsent(t, max32)); g != w {
				c.Fail(sigp+"NextAbsentValue", "NextAbsentValue(%d)=%d want %d (set %s)", t, g, w, m)
			}
			if g, w := b.PreviousAbsentValue(uint32(t)), want(m.PrevAbsent(t)); g != w {
				c.Fail(sigp+"PreviousAbsentValue", "PreviousAbsentValue(%d)=%d want %d (set %s)", t, g, w, m)
			}
			c.Eval(4)
		}
	})
}

func c15Neighbours(c *Ctx) {
	r := c.R
	m, shape := genNeighbourSet(r)
	form := ownedForms[r.Intn(len(ownedForms))]
	bm, es := buildForm(r, m, form)
	c.Step("bitmap shape=%s form=%s set=%v", shape, form, descSet(m))
	if es != "" {
		c.Fail("build/"+form, "%s", es)
		return
	}
	c.Count("shape_" + shape)
	countKinds(c, "chunk_kind_", bm.B)
	if !m.IsEmpty() {
		c.Distinct(mix(m.Hash(), hashStr(form)))
	}
	if r.Chance(0.4) {
		// the bitmap under query is the outcome of a history: chunks that were emptied, trimmed, split or refilled
		for i := 0; i < 1+r.Intn(6) && !c.Failed(); i++ {
			if r.Chance(0.25) {
				algebraStep(c, bm, "history/")
			} else {
				mutateStep(c, bm, MutOpts{Light: true, NoClone: true, Sig: "history/", OnlyOps: []string{"RemoveRange", "RemoveRange", "Remove", "CheckedRemove", "TrimEnds", "AddRange", "Flip", "Add", "RunOptimize"}})
			}
		}
		if c.Failed() {
			return
		}
		m = bm.M
		c.Count("bitmap_reached_by_a_history")
	}
	h0 := storageHash(bm.B)
	neighbourChecks(c, bm, argBattery(r, m, 30), "")
	if storageHash(bm.B) != h0 {
		c.Fail("neighbour/modified-bitmap", "a neighbour query changed the raw storage")
	}
	c.Sample(map[string]any{"unit": "neighbours", "case_seed": c.CaseSeed, "shape": shape, "form": form, "set": descSet(m)})
}

func c15Exh(c *Ctx, index int) {
	mask := index / 3
	form := []string{"add", "opt", "frozen"}[index%3]
	m := subsetOf(c01Dom, mask)
	bm, es := buildForm(c.R, m, form)
	c.Step("subset=%v form=%s", m.Full(), form)
	if es != "" {
		c.Fail("build/"+form, "%s", es)
		return
	}
	var targets []uint64
	for _, v := range c01Dom {
		targets = append(targets, v, (v-1)&max32, (v+1)&max32)
	}
	neighbourChecks(c, bm, targets, "exh/")
	if mask != 0 {
		c.Distinct(uint64(index))
	}
}
