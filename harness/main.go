package main

import (
	"bufio"
	"encoding/json"
	"fmt"
	"os"
	"os/exec"
	"path/filepath"
	"regexp"
	"runtime"
	"runtime/debug"
	"runtime/pprof"
	"sort"
	"strconv"
	"strings"
	"sync"
	"syscall"
	"time"
)

func usage() {
	fmt.Fprintln(os.Stderr, "usage: verifcheck run <Cxx> <tier> <bindir> | worker ... | replay <file> | selfcheck | list")
	os.Exit(2)
}

func verifDir() string {
	if d := os.Getenv("VERIF_DIR"); d != "" {
		return d
	}
	return "/verif"
}

func main() {
	if len(os.Args) < 2 {
		usage()
	}
	switch os.Args[1] {
	case "list":
		for _, k := range sortedKeys(registry) {
			p := registry[k]
			fmt.Printf("%s %s builds=%v\n", p.ID, p.Level, p.Builds)
			for _, u := range p.Units {
				fmt.Printf("    %-40s quick=%d thorough=%d\n", u.Name, u.Quick, u.Thorough)
			}
		}
	case "builds":
		if p := registry[os.Args[2]]; p != nil {
			fmt.Println(strings.Join(p.Builds, " "))
		} else {
			os.Exit(2)
		}
	case "selfcheck":
		os.Exit(selfcheck())
	case "run":
		if len(os.Args) < 5 {
			usage()
		}
		os.Exit(parentRun(os.Args[2], os.Args[3], os.Args[4]))
	case "worker":
		os.Exit(workerMain(os.Args[2:]))
	case "replay":
		if len(os.Args) < 3 {
			usage()
		}
		os.Exit(replayMain(os.Args[2]))
	default:
		usage()
	}
}

func seedFromEnv() uint64 {
	s := os.Getenv("VERIF_SEED")
	if s == "" {
		return 1
	}
	v, err := strconv.ParseInt(s, 10, 64)
	if err != nil {
		return hashStr(s) >> 1
	}
	return uint64(v)
}

// ---------------------------------------------------------------- worker

func workerMain(a []string) int {
	// worker <prop> <tier> <seed> <wi> <wn> <variant> <outdir>
	if len(a) < 7 {
		usage()
	}
	p := registry[a[0]]
	if p == nil {
		fmt.Fprintln(os.Stderr, "unknown property", a[0])
		return 2
	}
	tier := a[1]
	seed, _ := strconv.ParseUint(a[2], 10, 64)
	wi, _ := strconv.Atoi(a[3])
	wn, _ := strconv.Atoi(a[4])
	variant := a[5]
	curVariant = variant
	out := a[6]
	base := filepath.Join(out, fmt.Sprintf("w-%s-%d", variant, wi))
	w := newWorker(p.ID, base+".journal")
	if lim := os.Getenv("VERIF_RLIMIT_AS"); lim != "" {
		if v, err := strconv.ParseUint(lim, 10, 64); err == nil {
			syscall.Setrlimit(syscall.RLIMIT_AS, &syscall.Rlimit{Cur: v, Max: v})
		}
	}
	debug.SetGCPercent(400)
	if variant != "race" && os.Getenv("VERIF_KEEP_GOMAXPROCS") == "" && !strings.HasPrefix(p.ID, "C12") {
		runtime.GOMAXPROCS(2)
	}
	if pf := os.Getenv("VERIF_CPUPROFILE"); pf != "" {
		f, _ := os.Create(pf)
		pprof.StartCPUProfile(f)
		defer pprof.StopCPUProfile()
	}
	runWorker(p, tier, seed, wi, wn, variant, w)
	if err := w.finish(base + ".json"); err != nil {
		fmt.Fprintln(os.Stderr, "cannot write result:", err)
		return 2
	}
	return 0
}

// ---------------------------------------------------------------- parent

func workerCount() int {
	if s := os.Getenv("VERIF_WORKERS"); s != "" {
		if v, err := strconv.Atoi(s); err == nil && v > 0 {
			return v
		}
	}
	n := runtime.NumCPU() - 2
	if n < 1 {
		n = 1
	}
	if n > 14 {
		n = 14
	}
	return n
}

type procOutcome struct {
	variant  string
	wi       int
	err      error
	timedOut bool
	stderr   string
}

func parentRun(propID, tier, bindir string) int {
	p := registry[propID]
	if p == nil {
		fmt.Fprintln(os.Stderr, "unknown property", propID)
		return 2
	}
	if tier != "quick" && tier != "thorough" {
		fmt.Fprintln(os.Stderr, "tier must be quick or thorough")
		return 2
	}
	seed := seedFromEnv()
	vdir := verifDir()
	out, err := os.MkdirTemp(bindir, "run-")
	if err != nil {
		fmt.Fprintln(os.Stderr, err)
		return 2
	}
	defer os.RemoveAll(out)
	evPath := filepath.Join(vdir, "evidence", propID+".json")
	os.Remove(evPath)

	wn := workerCount()
	budget := 25 * time.Minute
	if tier == "thorough" {
		budget = 5 * time.Hour
	}
	var outcomes []procOutcome
	var mu sync.Mutex
	var wg sync.WaitGroup
	for _, variant := range p.Builds {
		bin := filepath.Join(bindir, "verifcheck-"+variant)
		vwn := wn
		if variant == "race" && vwn > 8 {
			vwn = 8
		}
		for wi := 0; wi < vwn; wi++ {
			wg.Add(1)
			go func(variant string, wi, vwn int) {
				defer wg.Done()
				o := procOutcome{variant: variant, wi: wi}
				cmd := exec.Command(bin, "worker", propID, tier, strconv.FormatUint(seed, 10), strconv.Itoa(wi), strconv.Itoa(vwn), variant, out)
				errf, _ := os.Create(filepath.Join(out, fmt.Sprintf("w-%s-%d.stderr", variant, wi)))
				cmd.Stderr = errf
				cmd.Stdout = errf
				if p.RlimitAS != 0 && variant != "race" {
					cmd.Env = append(os.Environ(), fmt.Sprintf("VERIF_RLIMIT_AS=%d", p.RlimitAS))
				} else {
					cmd.Env = os.Environ()
				}
				cmd.Env = append(cmd.Env,
					"GORACE=halt_on_error=0 log_path="+filepath.Join(out, fmt.Sprintf("race-%d", wi)),
					"GOTRACEBACK=all")
				if err := cmd.Start(); err != nil {
					o.err = err
				} else {
					done := make(chan error, 1)
					go func() { done <- cmd.Wait() }()
					select {
					case e := <-done:
						o.err = e
					case <-time.After(budget):
						o.timedOut = true
						cmd.Process.Signal(syscall.SIGQUIT)
						select {
						case <-done:
						case <-time.After(10 * time.Second):
							cmd.Process.Kill()
							<-done
						}
					}
				}
				errf.Close()
				if b, err := os.ReadFile(errf.Name()); err == nil {
					if len(b) > 1<<20 {
						b = b[:1<<20]
					}
					o.stderr = string(b)
				}
				mu.Lock()
				outcomes = append(outcomes, o)
				mu.Unlock()
			}(variant, wi, vwn)
		}
	}
	wg.Wait()

	// merge
	merged := WorkerResult{Property: propID, Hist: map[string]int64{}, Exhaustive: map[string]int64{}}
	nt := map[uint64]struct{}{}
	sets := map[string]map[uint64]struct{}{}
	inconclusive := []string{}
	var viols []Violation
	sort.Slice(outcomes, func(i, j int) bool {
		if outcomes[i].variant != outcomes[j].variant {
			return outcomes[i].variant < outcomes[j].variant
		}
		return outcomes[i].wi < outcomes[j].wi
	})
	for _, o := range outcomes {
		base := filepath.Join(out, fmt.Sprintf("w-%s-%d", o.variant, o.wi))
		var r WorkerResult
		b, rerr := os.ReadFile(base + ".json")
		if rerr == nil {
			rerr = json.Unmarshal(b, &r)
		}
		if rerr != nil || !r.Done {
			last := lastJournalCase(base + ".journal")
			if o.timedOut {
				inconclusive = append(inconclusive, fmt.Sprintf("worker %s/%d exceeded the wall-clock watchdog (%s) in %s", o.variant, o.wi, budget, last.desc))
				continue
			}
			// the process died: fatal runtime error, checkptr, OOM kill ...
			first := fatalLine(o.stderr)
			if first == "" {
				inconclusive = append(inconclusive, fmt.Sprintf("worker %s/%d died without a result and without a fatal message (err=%v) in %s", o.variant, o.wi, o.err, last.desc))
				continue
			}
			viols = append(viols, Violation{Property: propID, Signature: "fatal/" + fatalSig(first, o.stderr), Message: "worker process died: " + first + "\n" + trimStack(o.stderr),
				Unit: last.unit, CaseSeed: last.seed, Tier: tier, History: last.steps})
			continue
		}
		merged.Evaluations += r.Evaluations
		merged.Cases += r.Cases
		for _, h := range r.Nontrivial {
			nt[h] = struct{}{}
		}
		for k, v := range r.Hist {
			merged.Hist[k] += v
		}
		for k, v := range r.Exhaustive {
			merged.Exhaustive[k] += v
		}
		for k, hs := range r.Sets {
			if sets[k] == nil {
				sets[k] = map[uint64]struct{}{}
			}
			for _, h := range hs {
				sets[k][h] = struct{}{}
			}
		}
		if len(merged.Samples) < 4 {
			for _, s := range r.Samples {
				if len(merged.Samples) < 4 {
					merged.Samples = append(merged.Samples, s)
				}
			}
		}
		merged.Notes = append(merged.Notes, r.Notes...)
		viols = append(viols, r.Violations...)
		if o.variant == "race" {
			rv, nrep := raceReports(out, o.wi, propID, tier, base+".journal")
			merged.Hist["race_detector_reports"] += int64(nrep)
			viols = append(viols, rv...)
		}
	}

	// known findings
	findings, ferr := loadFindings(filepath.Join(vdir, "KNOWN_FINDINGS.txt"))
	if ferr != nil {
		fmt.Fprintln(os.Stderr, "cannot read KNOWN_FINDINGS.txt:", ferr)
		return 2
	}
	known := map[string]Finding{}
	for _, f := range findings {
		if f.Kind == "known" && f.Property == propID {
			known[f.Key] = f
		}
	}
	knownHit := map[string]int{}
	var fresh []Violation
	for _, v := range viols {
		if _, ok := known[v.Signature]; ok {
			knownHit[v.Signature]++
			continue
		}
		fresh = append(fresh, v)
	}
	for _, k := range sortedKeys(known) {
		f := known[k]
		if knownHit[k] > 0 {
			fmt.Printf("KNOWN-FINDING: property=%s key=%s %s (reproduced by %d case(s) of this run)\n", propID, k, f.Text, knownHit[k])
		} else {
			fmt.Printf("KNOWN-FINDING: property=%s key=%s %s (listed; not re-observed by this run)\n", propID, k, f.Text)
		}
	}

	wall := time.Since(startTime).Seconds()
	cov := map[string]any{
		"evaluations":         merged.Evaluations,
		"distinct_nontrivial": len(nt),
		"rule":                p.Rule,
		"samples":             merged.Samples,
		"cases":               merged.Cases,
		"exhaustive":          false,
		"observed":            merged.Hist,
		"workers":             len(outcomes),
		"builds":              p.Builds,
	}
	if len(merged.Exhaustive) > 0 {
		cov["exhaustive_subspaces"] = merged.Exhaustive
	}
	dist := map[string]int{}
	for k, m := range sets {
		dist[k] = len(m)
	}
	if len(dist) > 0 {
		cov["distinct_observed"] = dist
	}
	if len(merged.Notes) > 0 {
		n := merged.Notes
		if len(n) > 30 {
			n = n[:30]
		}
		cov["notes"] = n
	}
	if len(knownHit) > 0 {
		cov["known_findings_reproduced"] = knownHit
	}
	if len(inconclusive) > 0 {
		cov["inconclusive"] = inconclusive
	}
	if len(merged.Samples) == 0 {
		cov["samples"] = []any{}
	}
	ev := Evidence{PropertyID: propID, Tier: tier, Seed: int64(seed), Level: p.Level, Coverage: cov,
		Assumptions: p.Assumptions, WallS: wall, Violations: len(fresh)}

	code := 0
	if len(fresh) > 0 {
		code = 1
		os.MkdirAll(filepath.Join(vdir, "replays"), 0o755)
		seen := map[string]int{}
		n := 0
		for _, v := range fresh {
			seen[v.Signature]++
			if seen[v.Signature] > 2 || n >= 12 {
				continue
			}
			n++
			path := filepath.Join(vdir, "replays", fmt.Sprintf("%s-%d-%d.json", propID, seed, n))
			writeJSON(path, v)
			fmt.Printf("VIOLATION property=%s replay=%s\n", propID, path)
			fmt.Printf("  signature: %s\n  unit: %s case_seed=%d\n  %s\n", v.Signature, v.Unit, v.CaseSeed, indent(firstLines(v.Message, 12)))
		}
		fmt.Printf("  (%d violating case(s), %d distinct signature(s))\n", len(fresh), len(seen))
		for _, k := range sortedKeys(seen) {
			fmt.Printf("    %5d x %s\n", seen[k], k)
		}
	} else if len(inconclusive) > 0 || merged.Evaluations == 0 || len(nt) < 2 {
		code = 2
		for _, s := range inconclusive {
			fmt.Println("INCONCLUSIVE:", s)
		}
		if merged.Evaluations == 0 {
			fmt.Println("INCONCLUSIVE: the monitors observed nothing")
		}
	}
	if err := writeJSON(evPath, ev); err != nil {
		fmt.Fprintln(os.Stderr, "cannot write evidence:", err)
		return 2
	}
	fmt.Printf("%s %s seed=%d: cases=%d evaluations=%d distinct_nontrivial=%d violations=%d known=%d wall=%.1fs\n",
		propID, tier, seed, merged.Cases, merged.Evaluations, len(nt), len(fresh), len(knownHit), wall)
	return code
}

func indent(s string) string { return strings.ReplaceAll(s, "\n", "\n  ") }

func firstLines(s string, n int) string {
	l := strings.Split(s, "\n")
	if len(l) > n {
		l = append(l[:n], "…")
	}
	return strings.Join(l, "\n")
}

type journalCase struct {
	unit  string
	seed  uint64
	desc  string
	steps []string
}

func lastJournalCase(path string) journalCase {
	f, err := os.Open(path)
	if err != nil {
		return journalCase{desc: "(no journal)"}
	}
	defer f.Close()
	var jc journalCase
	sc := bufio.NewScanner(f)
	sc.Buffer(make([]byte, 1<<20), 1<<24)
	for sc.Scan() {
		l := sc.Text()
		if strings.HasPrefix(l, "CASE ") {
			fs := strings.Fields(l)
			if len(fs) >= 4 {
				jc.unit = fs[2]
				jc.seed, _ = strconv.ParseUint(fs[3], 10, 64)
				jc.desc = l
				jc.steps = nil
			}
		} else if len(jc.steps) < 4000 {
			jc.steps = append(jc.steps, strings.TrimSpace(l))
		}
	}
	return jc
}

func fatalLine(stderr string) string {
	for _, l := range strings.Split(stderr, "\n") {
		if strings.HasPrefix(l, "fatal error:") || strings.HasPrefix(l, "panic:") || strings.HasPrefix(l, "runtime: out of memory") || strings.Contains(l, "unexpected fault address") || strings.HasPrefix(l, "SIGSEGV") {
			return l
		}
	}
	return ""
}

func fatalSig(first, stderr string) string {
	s := first
	if i := strings.Index(s, ":"); i > 0 && len(s) > i+2 {
		s = strings.TrimSpace(s[i+1:])
	}
	s = strings.Join(strings.Fields(s), "-")
	s = regexp.MustCompile(`[0-9]+`).ReplaceAllString(s, "#")
	if i := strings.Index(s, "-("); i > 0 {
		s = s[:i]
	}
	if len(s) > 60 {
		s = s[:60]
	}
	return s + "@" + topRoaringFunc(stderr)
}

// raceReports parses the race detector logs of one worker. Only reports with a
// frame of the library on both sides are violations.
func raceReports(out string, wi int, propID, tier, journal string) ([]Violation, int) {
	matches, _ := filepath.Glob(filepath.Join(out, fmt.Sprintf("race-%d.*", wi)))
	var viols []Violation
	n := 0
	seen := map[string]bool{}
	for _, m := range matches {
		b, err := os.ReadFile(m)
		if err != nil {
			continue
		}
		blocks := strings.Split(string(b), "WARNING: DATA RACE")
		for _, blk := range blocks[1:] {
			n++
			// split in the two access stacks (up to "Goroutine ... created at")
			parts := strings.SplitN(blk, "\n\n", 3)
			if len(parts) < 2 {
				continue
			}
			a, c := parts[0], parts[1]
			if !strings.Contains(a, "RoaringBitmap/roaring") || !strings.Contains(c, "RoaringBitmap/roaring") {
				continue
			}
			sig := "race/" + outermostRoaring(a) + "~" + outermostRoaring(c)
			if seen[sig] {
				continue
			}
			seen[sig] = true
			jc := lastJournalCase(journal)
			viols = append(viols, Violation{Property: propID, Signature: sig, Message: "WARNING: DATA RACE" + firstLines(blk, 40), Unit: jc.unit, CaseSeed: jc.seed, Tier: tier})
		}
	}
	return viols, n
}

func outermostRoaring(stack string) string {
	last := "?"
	for _, l := range strings.Split(stack, "\n") {
		l = strings.TrimSpace(l)
		if strings.HasPrefix(l, "github.com/RoaringBitmap/roaring") {
			f := strings.TrimPrefix(l, "github.com/RoaringBitmap/roaring/v2")
			if i := strings.LastIndex(f, "("); i > 0 {
				f = f[:i]
			}
			last = strings.Trim(f, "./")
		}
	}
	return last
}

// ---------------------------------------------------------------- replay

func replayMain(path string) int {
	b, err := os.ReadFile(path)
	if err != nil {
		fmt.Fprintln(os.Stderr, err)
		return 2
	}
	var v Violation
	if err := json.Unmarshal(b, &v); err != nil {
		fmt.Fprintln(os.Stderr, err)
		return 2
	}
	p := registry[v.Property]
	if p == nil {
		fmt.Fprintln(os.Stderr, "unknown property", v.Property)
		return 2
	}
	for ui := range p.Units {
		u := &p.Units[ui]
		if u.Name != v.Unit {
			continue
		}
		w := newWorker(p.ID, "")
		w.replay = true
		if v.RunSeed != 0 {
			os.Setenv("VERIF_SEED", strconv.FormatUint(v.RunSeed, 10))
		}
		runCase(p, u, v.Tier, v.CaseSeed, u.ExhaustiveN != nil, w)
		if len(w.res.Violations) > 0 {
			for _, x := range w.res.Violations {
				fmt.Printf("VIOLATION property=%s replay=%s\n  signature: %s\n  %s\n", p.ID, path, x.Signature, indent(firstLines(x.Message, 30)))
			}
			return 1
		}
		fmt.Println("replay: the case held on the current tree")
		return 0
	}
	fmt.Fprintln(os.Stderr, "unit not found:", v.Unit)
	return 2
}
