package main

// Seeded, boundary-biased generators of set contents (as models) that are
// representation-aware: chunk archetypes x key layouts.

import "sort"

// chunkArch returns intervals inside [0,65535] for one 16-bit chunk.
var archNames = []string{
	"single0", "single65535", "singleRnd", "sparse", "arr4095", "arr4096", "bmp4097", "rnd10", "rnd30", "rnd50", "rnd90",
	"everyOther", "full", "fullMinusFirst", "fullMinusLast", "fullMinusFew", "oneRun", "fewRuns", "manyShortRuns",
	"runsTouchEdges", "wordEdges", "denseLow", "denseHigh", "twoValuesEdge", "arr4096runs", "tiny", "pow2card", "holedRun",
}

func genChunk(r *Rng, arch string) []IV {
	s := &ISet{}
	addRnd := func(n int, lo, hi uint64) {
		for s.Card() < uint64(n) {
			s.Add(r.Range(lo, hi))
		}
	}
	switch arch {
	case "single0":
		s.Add(0)
	case "single65535":
		s.Add(65535)
	case "singleRnd":
		s.Add(r.Range(0, 65535))
	case "tiny":
		addRnd(1+r.Intn(5), 0, 65535)
	case "sparse":
		addRnd(2+r.Intn(300), 0, 65535)
	case "arr4095", "arr4096", "bmp4097":
		n := map[string]int{"arr4095": 4095, "arr4096": 4096, "bmp4097": 4097}[arch]
		// spread values with random gaps so that runs are not efficient
		return spreadN(r, n)
	case "arr4096runs":
		// exactly 4096 values as runs (run-efficient): 64 runs of 64
		start := r.Range(0, 100)
		for i := uint64(0); i < 64; i++ {
			lo := start + i*1000
			s.AddRange(lo, lo+63)
		}
	case "rnd10", "rnd30", "rnd50", "rnd90":
		p := map[string]float64{"rnd10": .1, "rnd30": .3, "rnd50": .5, "rnd90": .9}[arch]
		return bernoulli(r, p)
	case "everyOther":
		off := uint64(r.Intn(2))
		ivs := make([]IV, 0, 32768)
		for v := off; v < 65536; v += 2 {
			ivs = append(ivs, IV{v, v})
		}
		return ivs
	case "full":
		s.AddRange(0, 65535)
	case "fullMinusFirst":
		s.AddRange(1, 65535)
	case "fullMinusLast":
		s.AddRange(0, 65534)
	case "fullMinusFew":
		s.AddRange(0, 65535)
		for i := 0; i < 1+r.Intn(6); i++ {
			s.Remove(edgeVal16(r))
		}
	case "oneRun":
		a, b := r.Range(0, 65535), r.Range(0, 65535)
		if a > b {
			a, b = b, a
		}
		s.AddRange(a, b)
	case "fewRuns":
		for i := 0; i < 2+r.Intn(8); i++ {
			a := r.Range(0, 65535)
			s.AddRange(a, minU(65535, a+r.Range(0, 3000)))
		}
	case "manyShortRuns":
		l := r.Range(3, 40)
		g := r.Range(1, 10)
		for v := r.Range(0, 50); v+l < 65536; v += l + g {
			s.AddRange(v, v+l-1)
			if r.Chance(0.02) {
				v += r.Range(0, 5000)
			}
		}
	case "runsTouchEdges":
		s.AddRange(0, r.Range(0, 200))
		s.AddRange(65535-r.Range(0, 200), 65535)
		if r.Chance(0.5) {
			a := r.Range(1000, 60000)
			s.AddRange(a, a+r.Range(0, 2000))
		}
	case "wordEdges":
		for _, v := range []uint64{63, 64, 65, 127, 128, 4095, 4096, 4097, 65471, 65472, 65535, 0} {
			if r.Chance(0.6) {
				s.Add(v)
			}
		}
		if s.IsEmpty() {
			s.Add(64)
		}
		if r.Chance(0.5) {
			// make it a bitmap container: add a random half-dense block
			for v := uint64(8192); v < 8192+16384; v++ {
				if r.Chance(0.5) {
					s.iv = append(s.iv, IV{v, v})
				}
			}
			s = ISetOf(s.iv...)
		}
	case "denseLow":
		s.AddRange(0, r.Range(4000, 20000))
		for i := 0; i < r.Intn(20); i++ {
			s.Remove(r.Range(0, 20000))
		}
	case "denseHigh":
		s.AddRange(65535-r.Range(4000, 20000), 65535)
		for i := 0; i < r.Intn(20); i++ {
			s.Remove(65535 - r.Range(0, 20000))
		}
	case "pow2card":
		// exactly 2^k values (k = 11..16) as one run, a few runs or scattered values
		return exactCardChunk(r, 1<<uint(11+r.Intn(6))).iv
	case "holedRun":
		// one interval with 1-3 interior values missing (array-sized or larger; the cheapest shapes in which two
		// different chunks share cardinality, minimum and maximum)
		w := []uint64{3, 10, 100, 1000, 4000, 4096, 4097, 20000}[r.Intn(8)] + r.Range(0, 3)
		a := r.Range(0, 65535-w)
		if r.Chance(0.2) {
			a = []uint64{0, 65535 - w}[r.Intn(2)]
		}
		s.AddRange(a, a+w)
		for i := 0; i < 1+r.Intn(3); i++ {
			s.Remove(r.Range(a+1, a+w-1))
		}
	case "twoValuesEdge":
		s.Add(edgeVal16(r))
		s.Add(edgeVal16(r))
	default:
		panic("unknown archetype " + arch)
	}
	return s.iv
}

func minU(a, b uint64) uint64 {
	if a < b {
		return a
	}
	return b
}

func edgeVal16(r *Rng) uint64 {
	e := []uint64{0, 1, 62, 63, 64, 65, 127, 128, 4094, 4095, 4096, 4097, 32767, 32768, 65470, 65471, 65472, 65534, 65535}
	if r.Chance(0.3) {
		return r.Range(0, 65535)
	}
	return e[r.Intn(len(e))]
}

// spreadN returns exactly n distinct values in [0,65535] with irregular gaps.
func spreadN(r *Rng, n int) []IV {
	// choose n of 65536 by selection sampling
	ivs := make([]IV, 0, n)
	need := n
	for v := 0; v < 65536 && need > 0; v++ {
		if r.Intn(65536-v) < need {
			need--
			x := uint64(v)
			if k := len(ivs); k > 0 && ivs[k-1].Hi+1 == x {
				ivs[k-1].Hi = x
			} else {
				ivs = append(ivs, IV{x, x})
			}
		}
	}
	return ivs
}

func bernoulli(r *Rng, p float64) []IV {
	var ivs []IV
	for w := 0; w < 1024; w++ {
		var word uint64
		if p == .5 {
			word = r.Uint64()
		} else {
			for b := 0; b < 64; b++ {
				if r.Float64() < p {
					word |= 1 << uint(b)
				}
			}
		}
		for b := 0; b < 64; b++ {
			if word&(1<<uint(b)) != 0 {
				x := uint64(w*64 + b)
				if k := len(ivs); k > 0 && ivs[k-1].Hi+1 == x {
					ivs[k-1].Hi = x
				} else {
					ivs = append(ivs, IV{x, x})
				}
			}
		}
	}
	return ivs
}

var edgeKeys = []uint64{0, 1, 2, 3, 5, 100, 0x7FFF, 0x8000, 0xFFFE, 0xFFFF}

// genKeys returns n distinct sorted chunk keys.
func genKeys(r *Rng, n int) []uint64 {
	m := map[uint64]bool{}
	mode := r.Intn(5)
	base := r.Range(0, 0xFFFF)
	for len(m) < n {
		var k uint64
		switch mode {
		case 0: // edge-biased
			if r.Chance(0.6) {
				k = edgeKeys[r.Intn(len(edgeKeys))]
			} else {
				k = r.Range(0, 0xFFFF)
			}
		case 1: // contiguous block
			k = (base + uint64(len(m))) & 0xFFFF
		case 2: // bottom
			k = r.Range(0, uint64(n)*2)
		case 3: // top of the key space
			k = 0xFFFF - r.Range(0, uint64(n)*2)
		default:
			k = r.Range(0, 0xFFFF)
		}
		m[k&0xFFFF] = true
	}
	out := make([]uint64, 0, n)
	for k := range m {
		out = append(out, k)
	}
	sort.Slice(out, func(i, j int) bool { return out[i] < out[j] })
	return out
}

type GenOpts struct {
	MaxChunks int     // upper bound on the number of chunks
	HeavyP    float64 // probability that a chunk uses a "heavy" archetype (>= 4096 values)
	Keys      []uint64
}

var lightArch = []string{"single0", "single65535", "singleRnd", "sparse", "tiny", "oneRun", "fewRuns", "runsTouchEdges", "twoValuesEdge", "wordEdges", "manyShortRuns", "arr4096runs", "holedRun"}
var heavyArch = []string{"arr4095", "arr4096", "bmp4097", "rnd10", "rnd30", "rnd50", "rnd90", "everyOther", "full", "fullMinusFirst", "fullMinusLast", "fullMinusFew", "denseLow", "denseHigh", "manyShortRuns", "oneRun", "pow2card"}

// genSet composes a model set from chunk archetypes.
func genSet(r *Rng, o GenOpts) (*ISet, []string) {
	n := 0
	if o.MaxChunks <= 0 {
		o.MaxChunks = 6
	}
	switch x := r.Intn(10); {
	case x == 0:
		n = 0
	case x < 4:
		n = 1
	case x < 8:
		n = 1 + r.Intn(minI(o.MaxChunks, 5))
	default:
		n = 1 + r.Intn(o.MaxChunks)
	}
	keys := o.Keys
	if keys == nil {
		keys = genKeys(r, n)
	} else {
		// choose a random subset of the supplied keys
		var sub []uint64
		for _, k := range keys {
			if r.Chance(0.7) {
				sub = append(sub, k)
			}
		}
		keys = sub
	}
	var ivs []IV
	var archs []string
	for _, k := range keys {
		var a string
		if r.Chance(o.HeavyP) {
			a = heavyArch[r.Intn(len(heavyArch))]
		} else {
			a = lightArch[r.Intn(len(lightArch))]
		}
		archs = append(archs, a)
		for _, v := range genChunk(r, a) {
			ivs = append(ivs, IV{k<<16 | v.Lo, k<<16 | v.Hi})
		}
	}
	return ivsToSet(ivs), archs
}

// ivsToSet builds a set from sorted, disjoint (possibly adjacent) intervals.
func ivsToSet(ivs []IV) *ISet {
	sorted := true
	for i := 1; i < len(ivs); i++ {
		if ivs[i-1].Lo > ivs[i].Lo {
			sorted = false
			break
		}
	}
	if !sorted {
		ivs = append([]IV(nil), ivs...)
		sort.Slice(ivs, func(a, b int) bool { return ivs[a].Lo < ivs[b].Lo })
	}
	s := &ISet{}
	for _, v := range ivs {
		if n := len(s.iv); n > 0 {
			last := &s.iv[n-1]
			if last.Hi >= v.Lo || last.Hi+1 == v.Lo { // overlapping or adjacent
				if v.Hi > last.Hi {
					last.Hi = v.Hi
				}
				continue
			}
		}
		s.iv = append(s.iv, v)
	}
	return s
}

func minI(a, b int) int {
	if a < b {
		return a
	}
	return b
}

// edgeVal32 returns a boundary-biased uint32 value relative to a model.
func edgeVal32(r *Rng, m *ISet) uint64 {
	switch r.Intn(10) {
	case 0:
		return []uint64{0, 1, 65535, 65536, 65537, max32, max32 - 1, 1 << 31, 4096, 4095}[r.Intn(10)]
	case 1, 2, 3, 4:
		if n := m.NumIntervals(); n > 0 {
			v := m.iv[r.Intn(n)]
			c := []uint64{v.Lo, v.Hi, v.Lo - 1, v.Hi + 1, v.Lo + 1, v.Hi - 1, (v.Lo + v.Hi) / 2}[r.Intn(7)]
			return c & max32
		}
		return r.Range(0, max32)
	case 5, 6:
		// chunk edges near the set
		if n := m.NumIntervals(); n > 0 {
			v := m.iv[r.Intn(n)]
			k := v.Lo >> 16
			c := []uint64{k << 16, k<<16 | 0xFFFF, (k+1)<<16 | 0, k<<16 - 1, k<<16 | 63, k<<16 | 64}[r.Intn(6)]
			return c & max32
		}
		return r.Range(0, max32)
	case 7:
		// inside a chunk that exists
		if n := m.NumIntervals(); n > 0 {
			v := m.iv[r.Intn(n)]
			return (v.Lo&^0xFFFF | edgeVal16(r)) & max32
		}
		return r.Range(0, max32)
	default:
		return r.Range(0, max32)
	}
}
