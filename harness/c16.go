package main

import (
	"encoding/binary"
	"fmt"
	"syscall"

	"github.com/RoaringBitmap/roaring/v2"
	"github.com/bits-and-blooms/bitset"
)

func init() {
	register(&Property{
		ID: "C16", Level: "exploration", Builds: []string{"plain"},
		Rule:        "cases = (a) generated bitmaps (all chunk archetypes at low / middle / top keys, 11 storage forms) x offsets d in {0,+-1,+-65535,+-65536,+-65537,+-k*65536,+-(2^32-1),random in (-2^32,2^32)} for AddOffset/AddOffset64 with the operand's raw storage hashed before/after and the result probed by mutations; (b) static Flip(b,s,e) over C02-style ranges vs in-place Flip of a clone and vs the model, operand unchanged; (c) ToDense/WriteDenseTo/DenseSize vs the model's bit vector; FromDense for word slices of lengths {0,1,1023,1024,1025,2047,2048,2049,random} with trailing partial chunk, all-zero chunks, >4096 and <=4096 bits per chunk, doCopy in {true,false}; for doCopy=false the words live in PROT_READ guard memory and the bitmap is then mutated (a write to the caller's words faults); FromBitSet/ToBitSet round trip. Non-trivial: non-empty operand; distinct = hash(set, form, argument). Exhaustive sub-space: every dense word-slice length 0..2200 + edges (thorough 0..9000). DenseSize is checked on every operand and result of the offset and flip units.",
		Assumptions: []string{"interval-set model validated by selfcheck", "Flip with end > 2^32 is a documented panic and not generated"},
		Units: []Unit{
			{Name: "addoffset", Quick: 6000, Thorough: 200000, Run: c16Offset},
			{Name: "static-flip", Quick: 4000, Thorough: 150000, Run: c16Flip},
			{Name: "dense", Quick: 2400, Thorough: 80000, Run: c16Dense},
			{Name: "every-dense-length", ExhaustiveN: func(t string) int { return len(denseLengths(t)) }, RunIndexed: c16DenseEveryLength},
		},
	})
}

func genOffset(r *Rng, m *ISet) int64 {
	k := int64(r.Range(0, 70000))
	sign := int64(1)
	if r.Chance(0.5) {
		sign = -1
	}
	switch r.Intn(12) {
	case 0:
		return 0
	case 1:
		return sign
	case 2:
		return sign * 65535
	case 3:
		return sign * 65536
	case 4:
		return sign * 65537
	case 5:
		return sign * k * 65536
	case 6:
		return sign * (1<<32 - 1)
	case 7:
		return sign * (k*65536 + int64(edgeVal16(r)))
	case 8: // shift the minimum to 0 / maximum to 2^32-1 (+-1)
		if mn, ok := m.Min(); ok {
			return -int64(mn) + int64(r.Intn(3)) - 1
		}
		return 0
	case 9:
		if mx, ok := m.Max(); ok {
			return int64(max32) - int64(mx) + int64(r.Intn(3)) - 1
		}
		return 0
	case 10:
		return sign * int64(r.Range(0, 1<<32-1))
	default:
		return sign * int64(r.Range(0, 200000))
	}
}

// denseSizeCheck: DenseSize = number of words of the plain bit vector = max/64+1 (0 for the empty bitmap), for bitmaps
// anywhere in the universe (the conversion itself is only run on small universes: 2^32 bits are 512 MiB).
func denseSizeCheck(c *Ctx, b *roaring.Bitmap, m *ISet, sig string) {
	c.Guard(sig+"/DenseSize", func() {
		want := uint64(0)
		if mx, ok := m.Max(); ok {
			want = mx/64 + 1
		}
		if g := b.DenseSize(); g != want {
			c.Fail("DenseSize/value", "DenseSize=%d want %d (set %s)", g, want, m)
		}
		c.Eval(1)
	})
}

func c16Offset(c *Ctx) {
	r := c.R
	o := GenOpts{MaxChunks: 5, HeavyP: 0.45}
	if r.Chance(0.3) {
		o.Keys = []uint64{0, 1, 2, 0x7FFF, 0x8000, 0xFFFD, 0xFFFE, 0xFFFF}
	}
	m, archs := genSet(r, o)
	form := ownedForms[r.Intn(len(ownedForms))]
	bm, es := buildForm(r, m, form)
	c.Step("bitmap form=%s archetypes=%v set=%v", form, archs, descSet(m))
	if es != "" {
		c.Fail("build/"+form, "%s", es)
		return
	}
	countKinds(c, "chunk_kind_", bm.B)
	denseSizeCheck(c, bm.B, m, "AddOffset")
	for rep := 0; rep < 4 && !c.Failed(); rep++ {
		d := genOffset(r, m)
		if d <= -(1<<32) || d >= 1<<32 {
			continue
		}
		want := m.Shift(d, max32)
		h0 := storageHash(bm.B)
		var res *roaring.Bitmap
		use32 := d >= 0 && r.Chance(0.4)
		c.Step("AddOffset64(b,%d) (32-bit entry point=%v)", d, use32)
		if c.Guard("AddOffset", func() {
			if use32 {
				res = roaring.AddOffset(bm.B, uint32(d))
			} else {
				res = roaring.AddOffset64(bm.B, d)
			}
		}) {
			return
		}
		inoff := "aligned"
		if d&0xFFFF != 0 {
			inoff = "unaligned"
		}
		c.Count("offset_" + inoff)
		if dsc := checkEq(res, want); dsc != "" {
			c.Fail("AddOffset/result/"+inoff, "AddOffset64(b,%d): %s\n b=%s", d, dsc, m)
			return
		}
		if storageHash(bm.B) != h0 {
			c.Fail("AddOffset/operand-changed", "AddOffset64 changed its operand's raw storage")
			return
		}
		c.Eval(2)
		denseSizeCheck(c, res, want, "AddOffset/result")
		if !m.IsEmpty() {
			c.Distinct(mix(mix(m.Hash(), uint64(d)), hashStr(form)))
		}
		// the result must be independent: mutate it and re-check the operand
		probeMutate(c, res, want.Clone(), "AddOffset")
		if storageHash(bm.B) != h0 {
			c.Fail("AddOffset/operand-changed-later", "mutating the result of AddOffset64 changed the operand")
			return
		}
		// mutate the operand's clone... (operand itself stays for the next repetition)
	}
	c.Sample(map[string]any{"unit": "addoffset", "case_seed": c.CaseSeed, "form": form, "set": descSet(m)})
}

func c16Flip(c *Ctx) {
	r := c.R
	m, archs := genSet(r, GenOpts{MaxChunks: 5, HeavyP: 0.45})
	form := ownedForms[r.Intn(len(ownedForms))]
	bm, es := buildForm(r, m, form)
	c.Step("bitmap form=%s archetypes=%v set=%v", form, archs, descSet(m))
	if es != "" {
		c.Fail("build/"+form, "%s", es)
		return
	}
	if r.Chance(0.3) && !bm.ZC {
		bm.B.SetCopyOnWrite(true)
		c.Step("SetCopyOnWrite(true)")
	}
	for rep := 0; rep < 4 && !c.Failed(); rep++ {
		s, e := genRange(r, m, r.Chance(0.7), false)
		if r.Chance(0.05) {
			e = s // empty range
		}
		want := m.Clone()
		if s < e {
			want.FlipRange(s, e-1)
		}
		h0 := storageHash(bm.B)
		var res *roaring.Bitmap
		useInt := e <= 1<<31-1 && r.Chance(0.3)
		c.Step("static Flip(b,%d,%d) (FlipInt=%v)", s, e, useInt)
		if c.Guard("Flip/static", func() {
			if useInt {
				res = roaring.FlipInt(bm.B, int(s), int(e))
			} else {
				res = roaring.Flip(bm.B, s, e)
			}
		}) {
			return
		}
		if dsc := checkEq(res, want); dsc != "" {
			c.Fail("Flip/static/result", "Flip(b,%d,%d): %s\n b=%s", s, e, dsc, m)
			return
		}
		if storageHash(bm.B) != h0 {
			c.Fail("Flip/static/operand-changed", "static Flip changed its operand's raw storage")
			return
		}
		cl := bm.B.Clone()
		if c.Guard("Flip/inplace", func() { cl.Flip(s, e) }) {
			return
		}
		if !cl.Equals(res) || !res.Equals(cl) {
			c.Fail("Flip/static-vs-inplace", "static Flip(b,%d,%d) differs from in-place Flip on a clone", s, e)
			return
		}
		c.Eval(3)
		denseSizeCheck(c, res, want, "Flip/static/result")
		if !m.IsEmpty() {
			c.Distinct(mix(mix(m.Hash(), s), mix(e, hashStr(form))))
		}
		probeMutate(c, res, want.Clone(), "Flip/static")
		if storageHash(bm.B) != h0 {
			c.Fail("Flip/static/operand-changed-later", "mutating the result of static Flip changed the operand")
			return
		}
	}
	c.Sample(map[string]any{"unit": "static-flip", "case_seed": c.CaseSeed, "form": form, "set": descSet(m)})
}

var denseLens = []int{0, 1, 2, 63, 1023, 1024, 1025, 2047, 2048, 2049, 3072}

func c16Dense(c *Ctx) {
	r := c.R
	// ---- FromDense from a word slice
	n := denseLens[r.Intn(len(denseLens))]
	if r.Chance(0.3) {
		n = r.Intn(6 * 1024)
	}
	c16DenseN(c, n)
}

// denseLengths: every word-slice length 0..2200 plus every length within 2 of a multiple of 1024 up to 24 chunks
// (quick); every length 0..9000 (thorough).
func denseLengths(tier string) []int {
	var out []int
	if tier == "thorough" {
		for n := 0; n <= 9000; n++ {
			out = append(out, n)
		}
		return out
	}
	for n := 0; n <= 2200; n++ {
		out = append(out, n)
	}
	for k := 3; k <= 24; k++ {
		for d := -2; d <= 2; d++ {
			out = append(out, 1024*k+d)
		}
	}
	return out
}

func c16DenseEveryLength(c *Ctx, index int) {
	ls := denseLengths(c.Tier)
	c.R = NewRng(mix(uint64(ls[index]), seedFromEnv()+16))
	c.SetAdd("dense_lengths_enumerated", uint64(ls[index]))
	c16DenseN(c, ls[index])
}

func c16DenseN(c *Ctx, n int) {
	r := c.R
	words := make([]uint64, n)
	for ch := 0; ch*1024 < n; ch++ {
		lo, hi := ch*1024, minI(n, ch*1024+1024)
		mode := r.Intn(7)
		for i := lo; i < hi; i++ {
			switch mode {
			case 0: // all zero chunk
			case 1: // dense
				words[i] = r.Uint64()
			case 2: // sparse (<= 4096 bits)
				if r.Chance(0.05) {
					words[i] = 1 << uint(r.Intn(64))
				}
			case 3: // full
				words[i] = maxU64
			case 4: // exactly around 4096 bits: 64 full words (+-1 bit)
				if i-lo < 64 {
					words[i] = maxU64
				}
			case 5: // edges
				if i == lo || i == hi-1 {
					words[i] = 1 | 1<<63
				}
			case 6:
				words[i] = r.Uint64() & r.Uint64() & r.Uint64()
			}
		}
		if mode == 4 && hi-lo > 64 {
			switch r.Intn(3) {
			case 0:
				words[lo+64] = 1 // 4097
			case 1:
				words[lo] &^= 1 // 4095
			}
		}
	}
	m := NewISet()
	var ivs []IV
	for i, w := range words {
		for b := 0; b < 64; b++ {
			if w&(1<<uint(b)) != 0 {
				x := uint64(i*64 + b)
				if k := len(ivs); k > 0 && ivs[k-1].Hi+1 == x {
					ivs[k-1].Hi = x
				} else {
					ivs = append(ivs, IV{x, x})
				}
			}
		}
	}
	m = ivsToSet(ivs)
	doCopy := r.Chance(0.5)
	c.Step("FromDense(len=%d words, doCopy=%v) card=%d", n, doCopy, m.Card())
	var reg *GuardRegion
	src := words
	if r.Chance(0.5) {
		// the caller's slice is a prefix of a larger, dirty buffer (capacity beyond len is not content)
		big := make([]uint64, n+1+r.Intn(2100))
		copy(big, words)
		for i := n; i < len(big); i++ {
			big[i] = maxU64 ^ uint64(i)
		}
		src = big[:n]
		c.Count("fromdense_source_with_dirty_capacity_tail")
	}
	if !doCopy {
		raw := make([]byte, 8*n)
		for i, w := range words {
			binary.LittleEndian.PutUint64(raw[8*i:], w)
		}
		var err error
		reg, err = NewGuard(raw, r.Chance(0.5))
		if err != nil {
			c.Note("mmap failed: " + err.Error())
			return
		}
		defer reg.Free()
		src = reg.Words()
	}
	var b *roaring.Bitmap
	if c.Guard("FromDense", func() {
		if r.Chance(0.5) {
			b = roaring.FromDense(src, doCopy)
		} else {
			b = roaring.New()
			b.FromDense(src, doCopy)
		}
	}) {
		return
	}
	if dsc := checkEq(b, m); dsc != "" {
		c.Fail("FromDense/result", "FromDense(len=%d, doCopy=%v): %s", n, doCopy, dsc)
		return
	}
	if err := b.Validate(); err != nil {
		c.Fail("FromDense/validate", "FromDense result fails Validate: %v", err)
	}
	c.Eval(2)
	if !m.IsEmpty() {
		c.Distinct(mix(m.Hash(), uint64(n)<<1|b2u(doCopy)))
	}
	c.Count(fmt.Sprintf("fromdense_doCopy_%v", doCopy))
	// ---- back to dense
	c.Guard("ToDense", func() {
		ds := b.DenseSize()
		mx, ok := m.Max()
		wantSz := uint64(0)
		if ok {
			wantSz = mx/64 + 1
		}
		if ds != wantSz {
			c.Fail("DenseSize/value", "DenseSize=%d want %d (max=%d)", ds, wantSz, mx)
			return
		}
		td := b.ToDense()
		if uint64(len(td)) != wantSz {
			c.Fail("ToDense/length", "len(ToDense)=%d want %d", len(td), wantSz)
			return
		}
		for i := range td {
			if td[i] != words[i] {
				c.Fail("ToDense/value", "ToDense word %d = %#x want %#x", i, td[i], words[i])
				return
			}
		}
		// WriteDenseTo into a larger zeroed buffer
		buf := make([]uint64, wantSz+uint64(r.Intn(3)))
		b.WriteDenseTo(buf)
		for i := range buf {
			w := uint64(0)
			if uint64(i) < wantSz {
				w = words[i]
			}
			if buf[i] != w {
				c.Fail("WriteDenseTo/value", "WriteDenseTo word %d = %#x want %#x", i, buf[i], w)
				return
			}
		}
		// after RunOptimize (run chunks take the mask path)
		cl := b.Clone()
		cl.RunOptimize()
		td2 := cl.ToDense()
		for i := range td2 {
			if td2[i] != words[i] {
				c.Fail("ToDense/value-run", "ToDense after RunOptimize: word %d = %#x want %#x", i, td2[i], words[i])
				return
			}
		}
		// bitset round trip
		bs := b.ToBitSet()
		if bs.Count() != uint(m.Card()) {
			c.Fail("ToBitSet/count", "ToBitSet has %d bits, want %d", bs.Count(), m.Card())
		}
		back := roaring.FromBitSet(bs)
		if dsc := checkEq(back, m); dsc != "" {
			c.Fail("FromBitSet/result", "FromBitSet(ToBitSet(b)): %s", dsc)
		}
		bs2 := bitset.From(append([]uint64(nil), words...))
		back2 := roaring.FromBitSet(bs2)
		if dsc := checkEq(back2, m); dsc != "" {
			c.Fail("FromBitSet/result", "FromBitSet(bitset.From(words)): %s", dsc)
		}
		c.Eval(6)
	})
	if c.Failed() {
		return
	}
	// ---- mutate the bitmap: with doCopy=false nothing may write to the caller's words
	bm := &BM{B: b, M: m, ZC: !doCopy}
	for i := 0; i < 25 && !c.Failed(); i++ {
		var op string
		if r.Chance(0.2) {
			op = algebraStep(c, bm, "FromDense/then-")
		} else {
			op = mutateStep(c, bm, MutOpts{Light: true, Sig: "FromDense/then-"})
		}
		if c.Failed() {
			break
		}
		if d := checkEq(bm.B, bm.M); d != "" {
			c.Fail("FromDense/then-"+op+"/content", "%s", d)
		}
		c.Eval(1)
	}
	if reg != nil {
		if !reg.Intact() {
			c.Fail("FromDense/nocopy/caller-words-changed", "the caller's words changed although FromDense was asked not to copy and they are read-only")
		}
		c.Eval(1)
		_ = syscall.PROT_READ
	}
	// ---- ToDense of a generic generated bitmap in low keys (all kinds)
	gm, _ := genSet(r, GenOpts{MaxChunks: 4, HeavyP: 0.5, Keys: []uint64{0, 1, 2, 3, 5}})
	form := ownedForms[r.Intn(len(ownedForms))]
	gb, es := buildForm(r, gm, form)
	if es != "" {
		c.Fail("build/"+form, "%s", es)
		return
	}
	c.Step("ToDense of a generated bitmap form=%s set=%v", form, descSet(gm))
	c.Guard("ToDense/generic", func() {
		td := gb.B.ToDense()
		mx, ok := gm.Max()
		if !ok {
			if len(td) != 0 {
				c.Fail("ToDense/length", "ToDense of the empty bitmap has %d words", len(td))
			}
			return
		}
		if uint64(len(td)) != mx/64+1 || gb.B.DenseSize() != mx/64+1 {
			c.Fail("ToDense/length", "len(ToDense)=%d DenseSize=%d want %d", len(td), gb.B.DenseSize(), mx/64+1)
			return
		}
		// compare with the model interval by interval
		want := make([]uint64, len(td))
		for _, v := range gm.Intervals() {
			for x := v.Lo; x <= v.Hi; x++ {
				want[x/64] |= 1 << (x % 64)
			}
		}
		for i := range td {
			if td[i] != want[i] {
				c.Fail("ToDense/value-generic", "ToDense word %d = %#x want %#x (form %s)", i, td[i], want[i], form)
				return
			}
		}
		c.Eval(2)
	})
}

func b2u(b bool) uint64 {
	if b {
		return 1
	}
	return 0
}
