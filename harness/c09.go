package main

import "github.com/RoaringBitmap/roaring/v2"

func init() {
	register(&Property{
		ID: "C09", Level: "exploration", Builds: []string{"plain"},
		Rule:        "cases = population histories (the union of the C02, C01, C07, C11 operation alphabets plus AddOffset64, static Flip, RunOptimize) starting from empty/generated bitmaps; after EVERY step EVERY live bitmap must pass Validate() and an independent invariant walk over the raw containers (parallel slices, strictly increasing keys, no empty chunk, cached cardinality == popcount, array <= 4096 sorted, bitmap > 4096 and 1024 words, runs sorted / disjoint / non-adjacent / within 0..65535); every 8th step one live bitmap is round-tripped through the portable and the frozen format and validated again. Second unit: single-bitmap mutation histories biased to fragment run chunks. Non-trivial: >= 1 run or bitmap chunk observed; distinct = hash of the step list. Added units: threshold-cardinality-targets (results with exactly 4095/4096/4097/65535/65536/2^k values through static, in-place and copy-on-write forms, then point updates across the threshold) and many-way aggregates whose result chunks sit on such thresholds.",
		Assumptions: []string{"Validate()'s run-efficiency rule is part of the property (first sentence of the statement)"},
		Units: []Unit{
			{Name: "population", Quick: 1500, Thorough: 80000, Run: c09Pop},
			{Name: "run-fragmenting-histories", Quick: 1500, Thorough: 80000, Run: c09RunHist},
			{Name: "representation-tie-targets", Quick: 1500, Thorough: 60000, Run: c09Ties},
			{Name: "threshold-cardinality-targets", Quick: 1500, Thorough: 60000, Run: func(c *Ctx) { thresholdTargets(c, false) }},
			// many-way aggregates whose result chunks sit exactly on a representation threshold (C11's generator; every
			// result must validate, which is this property's clause)
			{Name: "aggregate-partitions-of-threshold-unions", Quick: 1000, Thorough: 40000, Run: c11Partitions},
		},
	})
}

func c09Pop(c *Ctx) {
	p := newPop(c, PopMode{Validity: true, RunBias: c.R.Chance(0.4)})
	steps := 40 + c.R.Intn(50)
	for i := 0; i < steps; i++ {
		if !p.Step() {
			break
		}
		if i%8 == 7 && len(p.live) > 0 {
			k := p.pick()
			c.Step("round trip %s through the portable and the frozen format", p.name(k))
			if !roundTripValidity(c, p.live[k].B, p.live[k].M, "after-"+p.lastOp) {
				break
			}
		}
		for _, bm := range p.live {
			c.SetAdd("representation_states", kindVectorHash(bm.B))
		}
	}
	c.Distinct(p.h)
	c.Sample(map[string]any{"unit": "population", "case_seed": c.CaseSeed, "steps": firstN(c.hist, 14)})
}

// c09RunHist: one bitmap, history of range/point operations on run-heavy content.
func c09RunHist(c *Ctx) {
	r := c.R
	m := NewISet()
	for _, k := range genKeys(r, 1+r.Intn(2)) {
		a := []string{"oneRun", "fewRuns", "manyShortRuns", "runsTouchEdges", "full", "fullMinusFew", "arr4096runs", "tiny"}[r.Intn(8)]
		for _, v := range genChunk(r, a) {
			m.AddRange(k<<16|v.Lo, k<<16|v.Hi)
		}
	}
	bm, es := buildForm(r, m, []string{"range", "opt", "addmany"}[r.Intn(3)])
	if es != "" {
		c.Fail("build", "%s", es)
		return
	}
	c.Step("start form=%s set=%v", bm.Form, descSet(m))
	h := m.Hash()
	for i := 0; i < 60 && !c.Failed(); i++ {
		op := mutateStep(c, bm, MutOpts{Light: true, NoClone: true, OnlyOps: []string{"AddRange", "RemoveRange", "Flip", "Add", "Remove", "CheckedRemove", "CheckedAdd", "AddMany", "RunOptimize", "TrimEnds"}})
		if c.Failed() {
			return
		}
		if d := checkEq(bm.B, bm.M); d != "" {
			c.Fail("content/after-"+op, "%s", d)
			return
		}
		c.Eval(1)
		if !validityOracle(c, bm.B, "after-"+op, "b") {
			return
		}
		h = mix(h, hashStr(c.hist[len(c.hist)-1]))
		v := bm.B.VerifView()
		for _, s := range v.Slots {
			if s.Kind == roaring.VerifRun {
				c.Count("steps_with_run_chunk")
				break
			}
		}
	}
	if !c.Failed() {
		roundTripValidity(c, bm.B, bm.M, "end")
	}
	c.Distinct(h)
}

// c09Ties: the result chunk T sits exactly at (or next to) the point where the run form and the array form
// cost the same (n runs holding 2n+1 values; also 2n and 2n+2), or at the array/bitmap boundary (4096/4097),
// and T is reached through every operation family from operands derived from T. Every result must be the set
// T and must validate.
func c09Ties(c *Ctx) {
	r := c.R
	key := genKeys(r, 1)[0]
	if key == 0xFFFF {
		key = 0xFFFE
	}
	base := key << 16
	n := []int{1, 1, 2, 3, 5, 10, 100, 500, 1500}[r.Intn(9)]
	extra := []int{0, 1, 1, 1, 2}[r.Intn(5)] // card = 2n + extra
	T := NewISet()
	pos := uint64(r.Range(0, 40))
	bump := r.Intn(n)
	for i := 0; i < n; i++ {
		l := uint64(2)
		if i == bump {
			l += uint64(extra)
		}
		T.AddRange(pos, pos+l-1)
		pos += l + r.Range(1, 12)
	}
	if mx, _ := T.Max(); mx > 60000 {
		return
	}
	span, _ := T.Max()
	sh := func(s *ISet, b uint64) *ISet { return ivsToSet(shiftIVs(s.iv, b)) }
	want := sh(T, base)
	c.Step("target chunk: %d runs, %d values (2n+%d) at key %d: %v", n, T.Card(), extra, key, descSet(want))
	c.Distinct(mix(want.Hash(), uint64(n)<<8|uint64(extra)))
	build := func(m *ISet, forms ...string) *roaring.Bitmap {
		f := forms[r.Intn(len(forms))]
		bm, es := buildForm(r, m, f)
		if es != "" {
			c.Fail("build/"+f, "%s", es)
			return nil
		}
		return bm.B
	}
	check := func(op string, res *roaring.Bitmap, w *ISet) bool {
		c.Eval(1)
		if d := checkEq(res, w); d != "" {
			c.Fail("tie/"+op+"/content", "%s: %s", op, d)
			return false
		}
		return validityOracle(c, res, "tie-"+op, "result")
	}
	// X = one long run covering T; holes = X \ T
	X := ISetOf(IV{0, span + r.Range(0, 30)})
	holes := X.AndNot(T)
	xb := build(sh(X, base), "range", "opt")
	hb := build(sh(holes, base), "addmany", "add", "opt")
	if xb == nil || hb == nil {
		return
	}
	c.Step("x = one run covering the target; y = the holes; x.AndNot(y), AndNot(x,y), Xor(x,y), x.Xor(y)")
	c.Guard("tie", func() {
		cl := xb.Clone()
		cl.AndNot(hb)
		if !check("IAndNot", cl, want) {
			return
		}
		if !check("AndNot", roaring.AndNot(xb, hb), want) {
			return
		}
		if !check("Xor", roaring.Xor(xb, hb), want) {
			return
		}
		cl2 := xb.Clone()
		cl2.Xor(hb)
		if !check("IXor", cl2, want) {
			return
		}
		// And with a superset of T that meets X exactly in T
		Z := T.Or(ISetOf(IV{span + 100, span + 100 + r.Range(0, 3000)}))
		zb := build(sh(Z, base), "addmany", "opt", "range")
		if zb == nil {
			return
		}
		if !check("And", roaring.And(xb, zb), want) {
			return
		}
		cl3 := xb.Clone()
		cl3.And(zb)
		if !check("IAnd", cl3, want) {
			return
		}
		// RemoveRange / Flip / Remove of the holes, one by one, on the covering run
		cl4 := xb.Clone()
		for _, v := range holes.Intervals() {
			switch r.Intn(3) {
			case 0:
				cl4.RemoveRange(base+v.Lo, base+v.Hi+1)
			case 1:
				cl4.Flip(base+v.Lo, base+v.Hi+1)
			default:
				for x := v.Lo; x <= v.Hi; x++ {
					cl4.Remove(uint32(base + x))
				}
			}
		}
		if !check("punch-holes", cl4, want) {
			return
		}
		// Or of the two halves of T
		p1, p2 := splitSet(r, T)
		b1 := build(sh(p1, base), "range", "opt", "addmany")
		b2 := build(sh(p2, base), "range", "opt", "addmany")
		if b1 == nil || b2 == nil {
			return
		}
		if !check("Or", roaring.Or(b1, b2), want) {
			return
		}
		cl5 := b1.Clone()
		cl5.Or(b2)
		if !check("IOr", cl5, want) {
			return
		}
		if !check("FastOr", roaring.FastOr(b1, b2, b1), want) {
			return
		}
	})
	if c.Failed() {
		return
	}
	// AddOffset64: the source chunk is a bitmap chunk (dense filler below) whose top part, shifted by d,
	// becomes exactly T at the bottom of the next chunk
	d := int64(span + 1 + r.Range(0, 20))
	src := NewISet()
	for _, v := range T.Intervals() {
		src.AddRange(65536-uint64(d)+v.Lo, 65536-uint64(d)+v.Hi)
	}
	fill := ivsToSet(bernoulli(r, 0.5)).Restrict(0, 30000)
	srcAll := src.Or(fill)
	sb := build(sh(srcAll, base), "addmany", "add")
	if sb == nil {
		return
	}
	c.Step("AddOffset64(source with a bitmap chunk, %d): the piece spilling into key %d is the target", d, key+1)
	c.Guard("tie/AddOffset", func() {
		res := roaring.AddOffset64(sb, d)
		wantAll := srcAll.Shift(d, 65536*2-1)
		check("AddOffset", res, sh(wantAll, base))
	})
}
