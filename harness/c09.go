package main

import "github.com/RoaringBitmap/roaring/v2"

func init() {
	register(&Property{
		ID: "C09", Level: "exploration", Builds: []string{"plain"},
		Rule:        "cases = population histories (the union of the C02, C01, C07, C11 operation alphabets plus AddOffset64, static Flip, RunOptimize) starting from empty/generated bitmaps; after EVERY step EVERY live bitmap must pass Validate() and an independent invariant walk over the raw containers (parallel slices, strictly increasing keys, no empty chunk, cached cardinality == popcount, array <= 4096 sorted, bitmap > 4096 and 1024 words, runs sorted / disjoint / non-adjacent / within 0..65535); every 8th step one live bitmap is round-tripped through the portable and the frozen format and validated again. Second unit: single-bitmap mutation histories biased to fragment run chunks. Non-trivial: >= 1 run or bitmap chunk observed; distinct = hash of the step list.",
		Assumptions: []string{"Validate()'s run-efficiency rule is part of the property (first sentence of the statement)"},
		Units: []Unit{
			{Name: "population", Quick: 1500, Thorough: 80000, Run: c09Pop},
			{Name: "run-fragmenting-histories", Quick: 1500, Thorough: 80000, Run: c09RunHist},
		},
	})
}

func c09Pop(c *Ctx) {
	p := newPop(c, PopMode{Validity: true, RunBias: c.R.Chance(0.4)})
	steps := 40 + c.R.Intn(50)
	for i := 0; i < steps; i++ {
		if !p.Step() {
			break
		}
		if i%8 == 7 && len(p.live) > 0 {
			k := p.pick()
			c.Step("round trip %s through the portable and the frozen format", p.name(k))
			if !roundTripValidity(c, p.live[k].B, p.live[k].M, "after-"+p.lastOp) {
				break
			}
		}
		for _, bm := range p.live {
			c.SetAdd("representation_states", kindVectorHash(bm.B))
		}
	}
	c.Distinct(p.h)
	c.Sample(map[string]any{"unit": "population", "case_seed": c.CaseSeed, "steps": firstN(c.hist, 14)})
}

// c09RunHist: one bitmap, history of range/point operations on run-heavy content.
func c09RunHist(c *Ctx) {
	r := c.R
	m := NewISet()
	for _, k := range genKeys(r, 1+r.Intn(2)) {
		a := []string{"oneRun", "fewRuns", "manyShortRuns", "runsTouchEdges", "full", "fullMinusFew", "arr4096runs", "tiny"}[r.Intn(8)]
		for _, v := range genChunk(r, a) {
			m.AddRange(k<<16|v.Lo, k<<16|v.Hi)
		}
	}
	bm, es := buildForm(r, m, []string{"range", "opt", "addmany"}[r.Intn(3)])
	if es != "" {
		c.Fail("build", "%s", es)
		return
	}
	c.Step("start form=%s set=%v", bm.Form, descSet(m))
	h := m.Hash()
	for i := 0; i < 60 && !c.Failed(); i++ {
		op := mutateStep(c, bm, MutOpts{Light: true, NoClone: true, OnlyOps: []string{"AddRange", "RemoveRange", "Flip", "Add", "Remove", "CheckedRemove", "CheckedAdd", "AddMany", "RunOptimize"}})
		if c.Failed() {
			return
		}
		if d := checkEq(bm.B, bm.M); d != "" {
			c.Fail("content/after-"+op, "%s", d)
			return
		}
		c.Eval(1)
		if !validityOracle(c, bm.B, "after-"+op, "b") {
			return
		}
		h = mix(h, hashStr(c.hist[len(c.hist)-1]))
		v := bm.B.VerifView()
		for _, s := range v.Slots {
			if s.Kind == roaring.VerifRun {
				c.Count("steps_with_run_chunk")
				break
			}
		}
	}
	if !c.Failed() {
		roundTripValidity(c, bm.B, bm.M, "end")
	}
	c.Distinct(h)
}
