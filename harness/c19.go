package main

import (
	"fmt"
	"math/big"
	"strings"
)

func init() {
	register(&Property{
		ID: "C19", Level: "exploration", Builds: []string{"plain", "race"},
		Rule:        "cases = update histories (15-60 steps) over both BSI implementations (32-bit columns / 64-bit columns in several 2^32 buckets), auto-sized and fixed-width (NewBSI(max,min), values drawn within [min,max]) indexes: SetValue / SetBigValue (values up to +-2^100 on the 64-bit index) / SetMany / ClearValues (fresh found-set or the index's own existence bitmap) / Retain / ParOr of 1-3 freshly built indexes on disjoint columns with equal and different widths and worker counts 0..4 / Increment, IncrementAll, Add (only while the index holds no negative value; found-sets of existing columns); values negative, zero, width-forcing (2^k, 2^k-1, -2^k, int64 extremes), narrower overwrites. After EVERY step GetCardinality, ValueExists, GetValue/GetBigValue (and GetValues/GetBigValues with duplicates and missing columns) are compared with a map[column]*big.Int model for every stored column plus absent probe columns. Every 6th step a copy is made by Clone, NewBSIRetainSet, MarshalBinary->UnmarshalBinary and WriteTo->ReadFrom: it must hold the same map and be Equals (64-bit). The same unit runs under the race detector (goroutine paths of ClearValues, ParOr, NewBSIRetainSet, Sum). Non-trivial: >= 2 stored columns at some point; distinct = hash of the step list. Operands of earlier ParOr / Add calls stay alive with their own models: they are re-checked after every later update of the target, updated themselves (TouchOperand) and added a second time.",
		Assumptions: []string{"Increment/Add are exercised only on indexes without negative values and with found-sets of existing columns (conservative reading of 'on non-negative values')", "values stay within the range the index was created or auto-sized for"},
		Units: []Unit{
			{Name: "update-histories@plain,race", Quick: 8000, Thorough: 300000, Run: c19Histories},
			{Name: "pinned-known-finding@plain", Quick: 1, Thorough: 1, Run: c19PinnedKnown, Serial: true},
		},
	})
}

type bsiKept struct {
	x    *bsiX
	m    bsiModel
	from string
}

type bsiCase struct {
	kept   []bsiKept // operands of earlier ParOr / Add calls: they stay alive and must keep their own maps
	x      *bsiX
	m      bsiModel
	lo, hi int64
	fixed  bool
	is64   bool
	zeros  bool // every value written in this case is 0 (an index that never needs a value plane)
}

func newBSICase(r *Rng) *bsiCase {
	bc := &bsiCase{is64: r.Chance(0.5), m: bsiModel{}}
	bc.lo, bc.hi = -1<<63, 1<<63-1
	if r.Chance(0.3) {
		bc.fixed = true
		switch r.Intn(5) {
		case 0:
			bc.lo, bc.hi = 0, 255
		case 1:
			bc.lo, bc.hi = -128, 127
		case 2:
			bc.lo, bc.hi = 0, 1<<32-1
		case 3:
			bc.lo, bc.hi = -(1 << 40), 1<<40
		default:
			bc.lo, bc.hi = 1, 1000
		}
		bc.x = newBSIX(bc.is64, bc.hi, bc.lo)
	} else {
		bc.x = newBSIX(bc.is64, 0, 0)
		if r.Chance(0.06) {
			bc.zeros = true
			bc.lo, bc.hi = 0, 0
		}
	}
	return bc
}

func (bc *bsiCase) probeCols(r *Rng) []uint64 {
	var p []uint64
	for i := 0; i < 3; i++ {
		col := genCol(r, bc.is64)
		if _, ok := bc.m[col]; !ok {
			p = append(p, col)
		}
	}
	return p
}

func c19Histories(c *Ctx) {
	r := c.R
	bc := newBSICase(r)
	x := bc.x
	c.Step("%s fixed=%v range=[%d,%d]", x.name(), bc.fixed, bc.lo, bc.hi)
	steps := 15 + r.Intn(45)
	h := uint64(0)
	maxCols := 0
	for i := 0; i < steps && !c.Failed(); i++ {
		op := []string{"SetValue", "SetValue", "SetValue", "SetMany", "ClearValues", "Retain", "ParOr", "Increment", "Add", "SetBigValue", "RunOptimize", "TouchOperand"}[r.Intn(12)]
		sig := x.name() + "/" + op
		switch op {
		case "SetValue":
			col, v := genCol(r, bc.is64), genVal(r, bc.lo, bc.hi)
			c.Step("SetValue(%d,%d)", col, v)
			if c.Guard(sig, func() { x.setValue(col, v) }) {
				return
			}
			bc.m[col] = big.NewInt(v)
		case "SetBigValue":
			if !bc.is64 || bc.fixed || bc.zeros {
				continue
			}
			col := genCol(r, true)
			v := new(big.Int).Lsh(big.NewInt(1), uint(60+r.Intn(45)))
			v.Add(v, big.NewInt(int64(r.Intn(1000))-500))
			if r.Chance(0.5) {
				v.Neg(v)
			}
			c.Step("SetBigValue(%d,%s)", col, v.String())
			if c.Guard(sig, func() { x.b64.SetBigValue(col, v) }) {
				return
			}
			bc.m[col] = new(big.Int).Set(v)
		case "SetMany":
			cols, v := genCols(r, bc.is64, 1+r.Intn(5)), genVal(r, bc.lo, bc.hi)
			c.Step("SetMany(%v,%d)", cols, v)
			if c.Guard(sig, func() { x.setMany(cols, v) }) {
				return
			}
			for _, col := range cols {
				bc.m[col] = big.NewInt(v)
			}
		case "ClearValues":
			alias := r.Chance(0.2)
			var cols []uint64
			if alias {
				cols = bc.m.cols()
				sig += "-own-existence-bitmap"
			} else {
				cols = genCols(r, bc.is64, 1+r.Intn(4))
				for _, k := range bc.m.cols() {
					if r.Chance(0.3) {
						cols = append(cols, k)
					}
				}
			}
			c.Step("ClearValues(%v) alias-own-existence-bitmap=%v", cols, alias)
			if c.Guard(sig, func() { x.clearValues(cols, alias) }) {
				return
			}
			for _, col := range cols {
				delete(bc.m, col)
			}
			op = "ClearValues" + map[bool]string{true: "-own-existence-bitmap", false: ""}[alias]
		case "Retain":
			if !bc.is64 {
				continue
			}
			var keep []uint64
			for _, k := range bc.m.cols() {
				if r.Chance(0.7) {
					keep = append(keep, k)
				}
			}
			keep = append(keep, genCols(r, true, 2)...)
			c.Step("Retain(%v)", keep)
			km := map[uint64]bool{}
			for _, k := range keep {
				km[k] = true
			}
			wantDropped := uint64(0)
			for k := range bc.m {
				if !km[k] {
					wantDropped++
				}
			}
			if c.Guard(sig, func() {
				if d := x.b64.Retain(bm64(keep)); d != wantDropped {
					c.Fail(sig+"/dropped-count", "Retain returned %d dropped columns, want %d", d, wantDropped)
				}
			}) {
				return
			}
			for k := range bc.m {
				if !km[k] {
					delete(bc.m, k)
				}
			}
		case "ParOr":
			n := 1 + r.Intn(3)
			var others []*bsiX
			used := map[uint64]bool{}
			for k := range bc.m {
				used[k] = true
			}
			add := bsiModel{}
			width := ""
			neg := false
			var opCols [][]uint64
			for j := 0; j < n; j++ {
				o := newBSIX(bc.is64, 0, 0)
				// different widths: each operand draws from its own magnitude class
				mag := []int64{3, 255, 1 << 20, 1 << 40, 1<<62 - 1}[r.Intn(5)]
				if bc.zeros && r.Chance(0.8) {
					mag = 0
				}
				lo, hi := maxI64(bc.lo, -mag), minI64(bc.hi, mag)
				if r.Chance(0.5) {
					lo = maxI64(lo, 0)
				}
				opCols = append(opCols, nil)
				for k := 0; k < 1+r.Intn(4); k++ {
					col := genCol(r, bc.is64)
					if used[col] {
						continue
					}
					used[col] = true
					v := genVal(r, lo, hi)
					o.setValue(col, v)
					add[col] = big.NewInt(v)
					opCols[len(opCols)-1] = append(opCols[len(opCols)-1], col)
					if v < 0 {
						neg = true
					}
				}
				if r.Chance(0.3) {
					if bc.is64 {
						o.b64.RunOptimize()
					} else {
						o.b32.RunOptimize()
					}
				}
				width += fmt.Sprintf("%d ", o.bitCount())
				others = append(others, o)
				om := bsiModel{}
				for _, col := range opCols[len(opCols)-1] {
					om[col] = add[col]
				}
				bc.kept = append(bc.kept, bsiKept{o, om, "ParOr-operand"})
			}
			par := []int{0, 1, 2, 4}[r.Intn(4)]
			c.Step("ParOr(workers=%d) with %d indexes (bit counts %s; target %d) adding %s", par, n, width, x.bitCount(), add)
			if neg {
				sig += "-negative-operands"
			}
			if c.Guard(sig, func() { x.parOr(par, others...) }) {
				return
			}
			for k, v := range add {
				bc.m[k] = v
			}
			if neg {
				op = "ParOr-negative-operands"
			}
		case "Increment", "Add":
			if bc.fixed || bc.m.hasNegative() || len(bc.m) == 0 {
				continue
			}
			big40 := false
			for _, v := range bc.m {
				if v.BitLen() > 40 {
					big40 = true
				}
			}
			if big40 {
				continue
			}
			if op == "Increment" {
				mode := r.Intn(4)
				cols := bc.m.cols()
				if mode == 0 {
					var sub []uint64
					for _, k := range cols {
						if r.Chance(0.5) {
							sub = append(sub, k)
						}
					}
					cols = sub
				}
				c.Step("Increment mode=%d (0 fresh found-set, 1 nil, 2 own existence bitmap, 3 IncrementAll) cols=%v", mode, cols)
				if c.Guard(sig, func() { x.increment(cols, mode) }) {
					return
				}
				for _, k := range cols {
					bc.m[k] = new(big.Int).Add(bc.m[k], big.NewInt(1))
				}
			} else {
				o := newBSIX(bc.is64, 0, 0)
				add := bsiModel{}
				for k := 0; k < 1+r.Intn(4); k++ {
					col := genCol(r, bc.is64)
					if r.Chance(0.6) && len(bc.m) > 0 {
						cs := bc.m.cols()
						col = cs[r.Intn(len(cs))]
					}
					v := genVal(r, 0, 1<<30)
					o.setValue(col, v)
					add[col] = big.NewInt(v)
				}
				c.Step("Add(index holding %s)", add)
				if c.Guard(sig, func() { x.add(o) }) {
					return
				}
				for k, v := range add {
					if cur, ok := bc.m[k]; ok {
						bc.m[k] = new(big.Int).Add(cur, v)
					} else {
						bc.m[k] = v
					}
				}
				bc.kept = append(bc.kept, bsiKept{o, add.clone(), "Add-operand"})
				if r.Chance(0.25) {
					// the same operand is added a second time (a live operand may be reused)
					c.Step("Add(the same index again)")
					if c.Guard(sig, func() { x.add(o) }) {
						return
					}
					for k, v := range add {
						bc.m[k] = new(big.Int).Add(bc.m[k], v)
					}
				}
			}
		case "TouchOperand":
			// an operand of an earlier ParOr / Add is an index of its own: updating it must not change the target
			if len(bc.kept) == 0 {
				continue
			}
			k := &bc.kept[r.Intn(len(bc.kept))]
			col, v := genCol(r, bc.is64), genVal(r, -1000, 1<<40)
			if strings.HasPrefix(k.from, "copy-by-") {
				v = genVal(r, bc.lo, bc.hi) // a copy has the range of the index it was copied from
			}
			if cs := k.m.cols(); len(cs) > 0 && r.Chance(0.6) {
				col = cs[r.Intn(len(cs))]
			}
			c.Step("on a kept %s: SetValue(%d,%d)", k.from, col, v)
			if c.Guard(sig, func() { k.x.setValue(col, v) }) {
				return
			}
			k.m[col] = big.NewInt(v)
		case "RunOptimize":
			c.Step("RunOptimize()")
			if bc.is64 {
				x.b64.RunOptimize()
			} else {
				x.b32.RunOptimize()
			}
		}
		c.Count("bsi_op_" + x.name() + "_" + op)
		if len(bc.m) > maxCols {
			maxCols = len(bc.m)
		}
		h = mix(h, hashStr(c.hist[len(c.hist)-1]))
		if !checkBSI(c, x, bc.m, x.name()+"/after-"+op, bc.probeCols(r)) {
			return
		}
		// operands of earlier calls are indexes of their own: an update of the target must not change them
		if len(bc.kept) > 8 {
			bc.kept = bc.kept[len(bc.kept)-8:]
		}
		for _, k := range bc.kept {
			if !checkBSI(c, k.x, k.m, x.name()+"/"+k.from+"-changed-by-later-"+op, nil) {
				return
			}
		}
		if i%6 == 5 {
			c19Copies(c, bc)
		}
	}
	if !c.Failed() {
		c19Copies(c, bc)
	}
	if maxCols >= 2 {
		c.Distinct(h)
	}
	c.Sample(map[string]any{"unit": "update-histories", "case_seed": c.CaseSeed, "steps": firstN(c.hist, 10)})
}

func maxI64(a, b int64) int64 {
	if a > b {
		return a
	}
	return b
}
func minI64(a, b int64) int64 {
	if a < b {
		return a
	}
	return b
}

func c19Copies(c *Ctx, bc *bsiCase) {
	// the serialization clauses belong to C19 only; C12 reuses the update histories for their goroutine
	// paths and keeps Clone / NewBSIRetainSet (which copy the planes in goroutines)
	onlyGoroutineCopies := c.Prop != "C19"
	r := c.R
	x := bc.x
	neg := ""
	if bc.m.hasNegative() {
		neg = "/index-holds-negative-values"
	}
	type cp struct {
		name string
		mk   func() (*bsiX, bsiModel, error)
	}
	cps := []cp{
		{"Clone", func() (*bsiX, bsiModel, error) { return x.clone(), bc.m, nil }},
		{"NewBSIRetainSet", func() (*bsiX, bsiModel, error) {
			keep := genCols(r, bc.is64, 2)
			sub := bsiModel{}
			for _, k := range bc.m.cols() {
				if r.Chance(0.6) {
					keep = append(keep, k)
				}
			}
			for _, k := range keep {
				if v, ok := bc.m[k]; ok {
					sub[k] = v
				}
			}
			return x.retainCopy(keep), sub, nil
		}},
		{"MarshalBinary-UnmarshalBinary", func() (*bsiX, bsiModel, error) {
			o, err := x.marshalRoundTrip()
			return o, bc.m, err
		}},
		{"WriteTo-ReadFrom", func() (*bsiX, bsiModel, error) {
			o, err := x.streamRoundTrip()
			return o, bc.m, err
		}},
	}
	for i, k := range cps {
		if c.Failed() {
			return
		}
		if onlyGoroutineCopies && i >= 2 {
			break
		}
		sig := x.name() + "/copy-" + k.name + neg
		var o *bsiX
		var want bsiModel
		var err error
		c.Step("copy via %s", k.name)
		if c.Guard(sig, func() { o, want, err = k.mk() }) {
			return
		}
		if err != nil {
			c.Fail(sig+"/error", "%s: %v", k.name, err)
			return
		}
		if o == nil {
			continue
		}
		c.Count("bsi_copy_" + x.name() + "_" + k.name)
		if !checkBSI(c, o, want, sig, nil) {
			return
		}
		if bc.is64 && k.name != "NewBSIRetainSet" {
			if !o.b64.Equals(x.b64) || !x.b64.Equals(o.b64) {
				c.Fail(sig+"/Equals", "the copy made by %s is not Equals to the original", k.name)
				return
			}
		}
		// the copy must be independent: mutate it, the original must not change
		if len(want) > 0 {
			col := want.cols()[0]
			nv := genVal(r, bc.lo, bc.hi)
			o.setValue(col, nv)
			if !checkBSI(c, x, bc.m, sig+"/original-changed-by-copy", nil) {
				return
			}
			// the copy stays alive with its own model: later updates of the original must not reach it, and it may be
			// updated itself (TouchOperand)
			if c.Prop == "C19" && (k.name == "Clone" || k.name == "NewBSIRetainSet") && r.Chance(0.5) {
				cm := want.clone()
				cm[col] = big.NewInt(nv)
				bc.kept = append(bc.kept, bsiKept{o, cm, "copy-by-" + k.name})
			}
		}
		c.Eval(2)
	}
}

// c19PinnedKnown re-executes the concrete history of the known finding (64-bit BSI MarshalBinary drops the sign
// plane): SetValue(1,-5); MarshalBinary; UnmarshalBinary.
func c19PinnedKnown(c *Ctx) {
	bc := &bsiCase{is64: true, m: bsiModel{}, lo: -1 << 63, hi: 1<<63 - 1}
	bc.x = newBSIX(true, 0, 0)
	c.Step("pinned history: BSI64 SetValue(1,-5); SetValue(2,3); MarshalBinary -> UnmarshalBinary")
	bc.x.setValue(1, -5)
	bc.x.setValue(2, 3)
	bc.m[1] = big.NewInt(-5)
	bc.m[2] = big.NewInt(3)
	c.Distinct(1)
	c.Distinct(2)
	c19Copies(c, bc)
}
