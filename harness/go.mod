module verifharness

go 1.24.0

toolchain go1.24.4

require (
	github.com/RoaringBitmap/roaring/v2 v2.0.0
	github.com/bits-and-blooms/bitset v1.24.4
)

require github.com/mschoch/smat v0.2.0 // indirect

replace github.com/RoaringBitmap/roaring/v2 => /repo
