package main

// Small-scope exhaustive sub-tier over ONE input dimension that the random generators sample thinly: the number
// of chunks of a bitmap (0..65536). Header layouts, scratch buffers, offset tables and capacity checks of the
// serializers depend on it, and a slip there typically shows for exactly one count (seeded change C13-r4m1:
// WriteFrozenTo with exactly 1365 chunks). The quick tier enumerates every count 0..4200 plus every count within
// +-2 of a multiple of 1024 and of a power of two up to 65536; the thorough tier enumerates all 65537 counts.
// The chunks are tiny (one value, a short run, or - for at most three chunks - a bitmap chunk), so a case costs
// O(count).

import (
	"bytes"
	"fmt"
	"sort"

	"github.com/RoaringBitmap/roaring/v2"
	"github.com/RoaringBitmap/roaring/v2/roaring64"
)

var chunkCountsQuick []int

func chunkCounts(tier string) []int {
	if tier == "thorough" {
		out := make([]int, 65537)
		for i := range out {
			out[i] = i
		}
		return out
	}
	if chunkCountsQuick != nil {
		return chunkCountsQuick
	}
	seen := map[int]bool{}
	add := func(n int) {
		if n >= 0 && n <= 65536 {
			seen[n] = true
		}
	}
	for n := 0; n <= 4200; n++ {
		add(n)
	}
	for k := 1; k <= 64; k++ {
		for d := -2; d <= 2; d++ {
			add(1024*k + d)
		}
	}
	for p := 1; p <= 65536; p *= 2 {
		for d := -2; d <= 2; d++ {
			add(p + d)
			add(p + p/2 + d)
		}
	}
	for n := range seen {
		chunkCountsQuick = append(chunkCountsQuick, n)
	}
	sort.Ints(chunkCountsQuick)
	return chunkCountsQuick
}

// buildNChunks builds a bitmap with exactly n chunks (and its model). The layout is derived from (n, salt): keys
// consecutive from a base or spread with a stride; kinds single value / short run / two values, at most three
// bitmap chunks; optionally run-optimized or built without any run chunk.
func buildNChunks(c *Ctx, n int, salt uint64) (*roaring.Bitmap, *ISet, string) {
	r := NewRng(mix(uint64(n), salt))
	b := roaring.New()
	m := NewISet()
	if n == 0 {
		return b, m, "empty"
	}
	stride, base := uint64(1), uint64(0)
	if n < 65536 {
		switch r.Intn(3) {
		case 0:
			base = r.Range(0, uint64(65536-n))
		case 1:
			stride = uint64(65536 / n)
			base = r.Range(0, 65535-stride*uint64(n-1))
		default:
			base = uint64(65536 - n) // ends at key 0xFFFF
		}
	}
	mode := r.Intn(4) // 0 mixed, 1 arrays only (no-run cookie), 2 runs only, 3 mixed + RunOptimize
	nbm := 0
	for i := 0; i < n; i++ {
		k := (base + uint64(i)*stride) << 16
		kind := r.Intn(3)
		switch mode {
		case 1:
			kind = 0
		case 2:
			kind = 1
		}
		if mode != 2 && nbm < 3 && r.Intn(n+1) < 3 {
			kind = 3
			nbm++
		}
		switch kind {
		case 0:
			v := k | r.Range(0, 65535)
			b.Add(uint32(v))
			m.Add(v)
			if r.Chance(0.3) {
				w := k | r.Range(0, 65535)
				b.Add(uint32(w))
				m.Add(w)
			}
		case 1, 2:
			lo := k | r.Range(0, 65000)
			hi := lo + r.Range(0, 300)
			b.AddRange(lo, hi+1)
			m.AddRange(lo, hi)
		default: // a bitmap chunk: every other value of a 10000-wide window
			lo := k | r.Range(0, 50000)
			vals := make([]uint32, 0, 5000)
			for x := lo; x < lo+10000; x += 2 {
				vals = append(vals, uint32(x))
				m.Add(x)
			}
			b.AddMany(vals)
		}
	}
	if mode == 3 {
		b.RunOptimize()
	}
	return b, m, fmt.Sprintf("n=%d base-key=%d stride=%d mode=%d bitmap-chunks=%d", n, base, stride, mode, nbm)
}

func chunkCountCase(c *Ctx, index int) (int, *roaring.Bitmap, *ISet, bool) {
	counts := chunkCounts(c.Tier)
	if index >= len(counts) {
		return 0, nil, nil, false
	}
	n := counts[index]
	b, m, desc := buildNChunks(c, n, seedFromEnv())
	c.Step("bitmap with exactly %d chunks (%s)", n, desc)
	if d := checkEq(b, m); d != "" {
		c.Fail("build/n-chunks", "%s", d)
		return n, nil, nil, false
	}
	if got := len(b.VerifView().Slots); got != n {
		c.Fail("build/n-chunks", "harness: built %d chunks, wanted %d", got, n)
		return n, nil, nil, false
	}
	if n > 0 {
		c.Distinct(uint64(n))
	}
	c.SetAdd("chunk_counts_enumerated", uint64(n))
	return n, b, m, true
}

// ---------------------------------------------------------------- C13

func c13EveryCount(c *Ctx, index int) {
	n, b, m, ok := chunkCountCase(c, index)
	if !ok {
		return
	}
	size := b.GetFrozenSizeInBytes()
	c.Guard("Freeze", func() {
		fz, err := b.Freeze()
		if err != nil || uint64(len(fz)) != size {
			c.Fail("Freeze/length", "%d chunks: Freeze returned %d bytes, err=%v, GetFrozenSizeInBytes=%d", n, len(fz), err, size)
			return
		}
		var wb bytes.Buffer
		k, err := b.WriteFrozenTo(&wb)
		if err != nil || k != wb.Len() || !bytes.Equal(wb.Bytes(), fz) {
			c.Fail("WriteFrozenTo/bytes-or-count", "%d chunks: WriteFrozenTo returned (%d,%v), wrote %d bytes, equal to Freeze=%v", n, k, err, wb.Len(), bytes.Equal(wb.Bytes(), fz))
			return
		}
		dst := make([]byte, size+3)
		for i := range dst {
			dst[i] = 0xCD
		}
		k, err = b.FreezeTo(dst)
		if err != nil || uint64(k) != size || !bytes.Equal(dst[:size], fz) || dst[size] != 0xCD {
			c.Fail("FreezeTo/bytes-or-count", "%d chunks: FreezeTo returned (%d,%v); equal to Freeze=%v", n, k, err, bytes.Equal(dst[:size], fz))
			return
		}
		if size > 0 {
			small := make([]byte, size-1)
			if _, err := b.FreezeTo(small); err == nil {
				c.Fail("FreezeTo/too-small-no-error", "%d chunks: FreezeTo into %d bytes (need %d) returned nil", n, size-1, size)
				return
			}
		}
		fs, _, ferr := frozenDecode(fz)
		if ferr != nil || !fs.Equal(m) {
			c.Fail("layout/independent-parser", "%d chunks: independent frozen parser: err=%v equal=%v", n, ferr, fs != nil && fs.Equal(m))
			return
		}
		for _, must := range []bool{false, true} {
			fv := roaring.New()
			if must {
				err = fv.MustFrozenView(fz)
			} else {
				err = fv.FrozenView(fz)
			}
			if err != nil {
				c.Fail("FrozenView/error", "%d chunks: FrozenView (must=%v) failed on the library's own bytes: %v", n, must, err)
				return
			}
			if d := checkEq(fv, m); d != "" {
				c.Fail("FrozenView/content", "%d chunks: %s", n, d)
				return
			}
			if !fv.Equals(b) {
				c.Fail("FrozenView/Equals", "%d chunks: the frozen view is not Equal to the original", n)
				return
			}
		}
		// the caller owns the returned bytes: scribbling over them must not influence a later Freeze
		for i := range fz {
			fz[i] = 0xAA
		}
		fz2, err := b.Freeze()
		if err != nil || !bytes.Equal(fz2, wb.Bytes()) {
			c.Fail("Freeze/after-caller-overwrote-earlier-result", "%d chunks: a second Freeze differs from WriteFrozenTo after the caller overwrote the first result", n)
			return
		}
		c.Eval(9)
	})
}

// ---------------------------------------------------------------- C05 / C06

func c05EveryCount(c *Ctx, index int) {
	n, b, m, ok := chunkCountCase(c, index)
	if !ok {
		return
	}
	c.Guard("every-count", func() {
		wire, err := b.ToBytes()
		if err != nil {
			c.Fail("ToBytes/error", "%d chunks: %v", n, err)
			return
		}
		if size := b.GetSerializedSizeInBytes(); uint64(len(wire)) != size {
			c.Fail("size/ToBytes-vs-GetSerializedSizeInBytes", "%d chunks: len(ToBytes)=%d GetSerializedSizeInBytes=%d", n, len(wire), size)
			return
		}
		var buf bytes.Buffer
		k, err := b.WriteTo(&buf)
		if err != nil || k != int64(buf.Len()) || !bytes.Equal(buf.Bytes(), wire) {
			c.Fail("WriteTo/bytes-or-count", "%d chunks: WriteTo returned (%d,%v) and wrote %d bytes; ToBytes has %d", n, k, err, buf.Len(), len(wire))
			return
		}
		tail := []byte{0x3A, 0x30, 0, 0, 9, 9, 9}
		for _, name := range []string{"ReadFrom", "ReadFrom/chunked", "FromBuffer", "FromUnsafeBytes", "UnmarshalBinary"} {
			dst := roaring.New()
			if c.R.Chance(0.3) {
				dst, _ = reusedReceiver(c)
			}
			var got int64
			switch name {
			case "ReadFrom":
				rd := bytes.NewReader(append(append([]byte(nil), wire...), tail...))
				got, err = dst.ReadFrom(rd)
				if err == nil && rd.Len() != len(tail) {
					c.Fail("ReadFrom/consumed-beyond-stream", "%d chunks: ReadFrom left %d bytes unread, the sentinel tail has %d", n, rd.Len(), len(tail))
					return
				}
			case "ReadFrom/chunked":
				if n > 6000 && n%64 != 0 {
					continue
				}
				got, err = dst.ReadFrom(&chunkedReader{data: append([]byte(nil), wire...), r: c.R})
			case "FromBuffer":
				got, err = dst.FromBuffer(append(append([]byte(nil), wire...), tail...))
			case "FromUnsafeBytes":
				got, err = dst.FromUnsafeBytes(append([]byte(nil), wire...))
			default:
				err = dst.UnmarshalBinary(append([]byte(nil), wire...))
				got = int64(len(wire))
			}
			if err != nil || got != int64(len(wire)) {
				c.Fail(name+"/error-or-byte-count", "%d chunks: %s = (%d,%v) for a %d byte stream", n, name, got, err, len(wire))
				return
			}
			if d := checkEq(dst, m); d != "" {
				c.Fail(name+"/content", "%d chunks: %s", n, d)
				return
			}
			c.Eval(2)
		}
		// a writer failing inside the header region and at the very end
		for _, off := range []int{0, 3, 4, 7, 8, 8 + n/8, 8 + 4*n - 1, 8 + 4*n, 8 + 8*n - 1, 8 + 8*n, len(wire) - 1} {
			if off < 0 || off >= len(wire) {
				continue
			}
			if k, err := b.WriteTo(&failWriter{limit: off}); err == nil {
				c.Fail("WriteTo/failing-writer/nil-error", "%d chunks: WriteTo returned (%d,nil) although the writer failed at offset %d of %d", n, k, off, len(wire))
				return
			}
			c.Eval(1)
		}
		// the caller owns the returned bytes
		for i := range wire {
			wire[i] = 0xAA
		}
		again, err := b.ToBytes()
		if err != nil || !bytes.Equal(again, buf.Bytes()) {
			c.Fail("ToBytes/after-caller-overwrote-earlier-result", "%d chunks: a second ToBytes differs from WriteTo after the caller overwrote the first result", n)
		}
	})
}

func c06EveryCount(c *Ctx, index int) {
	n, b, m, ok := chunkCountCase(c, index)
	if !ok {
		return
	}
	c.Guard("every-count", func() {
		// write direction
		wire, err := b.ToBytes()
		if err != nil {
			c.Fail("write/ToBytes-error", "%d chunks: %v", n, err)
			return
		}
		ds, used, info, derr := specDecode(wire)
		if derr != nil || used != len(wire) || len(info.Strict) > 0 || !ds.Equal(m) {
			c.Fail("write/every-chunk-count", "%d chunks: independent decoder on the library's stream: err=%v used=%d/%d strict=%v equal=%v", n, derr, used, len(wire), firstN(info.Strict, 3), ds != nil && ds.Equal(m))
			return
		}
		c.Eval(1)
		// read direction: a conformant stream of the same set under another implementation's choices
		ch := encChoice{ForceRunCookie: c.R.Chance(0.5), RunP: []float64{0, 0.5, 1}[c.R.Intn(3)], SplitRuns: c.R.Chance(0.3)}
		enc := specEncode(c.R, m, ch)
		for _, name := range []string{"ReadFrom", "FromBuffer"} {
			dst := roaring.New()
			var got int64
			if name == "ReadFrom" {
				got, err = dst.ReadFrom(bytes.NewReader(enc))
			} else {
				got, err = dst.FromBuffer(enc)
			}
			if err != nil || got != int64(len(enc)) {
				c.Fail("read/"+name+"/every-chunk-count", "%d chunks: %s of a conformant stream (choices %+v): n=%d of %d err=%v", n, name, ch, got, len(enc), err)
				return
			}
			if d := checkEq(dst, m); d != "" {
				c.Fail("read/"+name+"/every-chunk-count/content", "%d chunks: %s", n, d)
				return
			}
			c.Eval(2)
		}
		_ = enc[len(enc)-1]
	})
}

// ---------------------------------------------------------------- C03

// c03EveryCount: the scalar queries (whose drivers binary-search / gallop over the chunk keys) and the Checksum
// clauses (Clone, serialize/deserialize round trip) for every chunk count.
func c03EveryCount(c *Ctx, index int) {
	n, b, m, ok := chunkCountCase(c, index)
	if !ok {
		return
	}
	nargs := 6
	if n > 5000 {
		nargs = 3
	}
	queryBattery(c, &BM{B: b, M: m}, nargs)
	if c.Failed() {
		return
	}
	c.Guard("query/Checksum", func() {
		cs := b.Checksum()
		if g := b.Clone().Checksum(); g != cs {
			c.Fail("query/Checksum/clone", "%d chunks: Checksum changed by Clone: %d vs %d", n, cs, g)
			return
		}
		buf, err := b.ToBytes()
		if err != nil {
			c.Fail("query/Checksum/ToBytes", "%d chunks: ToBytes failed: %v", n, err)
			return
		}
		rt := roaring.New()
		if _, err := rt.ReadFrom(bytes.NewReader(buf)); err != nil {
			c.Fail("query/Checksum/ReadFrom", "%d chunks: ReadFrom failed on the library's own bytes: %v", n, err)
			return
		}
		if g := rt.Checksum(); g != cs {
			c.Fail("query/Checksum/roundtrip", "%d chunks: Checksum changed by a serialize/deserialize round trip: %d vs %d", n, cs, g)
			return
		}
		if !rt.Equals(b) || !b.Equals(rt) {
			c.Fail("query/Equals/roundtrip", "%d chunks: the round-tripped bitmap is not Equal to the original", n)
		}
		c.Eval(4)
	})
}

// c03Universe: bitmaps at the scale of the whole universe (cardinality 2^32, 2^32-1, ... : the only bitmaps whose
// cardinality, ranks and select indexes do not fit 32 bits or sit right at that edge).
func buildUniverseScale(r *Rng) (*roaring.Bitmap, *ISet, string) {
	b := roaring.New()
	m := NewISet()
	b.AddRange(0, 1<<32)
	m.AddRange(0, max32)
	what := "the complete universe [0,2^32)"
	switch r.Intn(6) {
	case 0:
	case 1:
		x := edgeVal32(r, m)
		b.Remove(uint32(x))
		m.Remove(x)
		what = fmt.Sprintf("the universe minus {%d}", x)
	case 2:
		k := []uint64{0, 1, 0x7FFF, 0xFFFE, 0xFFFF}[r.Intn(5)]
		b.RemoveRange(k<<16, (k+1)<<16)
		m.RemoveRange(k<<16, k<<16|0xFFFF)
		what = fmt.Sprintf("the universe minus chunk %d", k)
	case 3:
		for i := 0; i < 1+r.Intn(6); i++ {
			x := edgeVal32(r, m)
			b.Remove(uint32(x))
			m.Remove(x)
		}
		what = "the universe minus a few values"
	case 4:
		// everything from some value up to the end of the universe, or from 0 up to some value
		x := edgeVal32(r, m)
		if r.Chance(0.5) {
			b.RemoveRange(0, x)
			if x > 0 {
				m.RemoveRange(0, x-1)
			}
			what = fmt.Sprintf("[%d,2^32)", x)
		} else {
			b.RemoveRange(x, 1<<32)
			m.RemoveRange(x, max32)
			what = fmt.Sprintf("[0,%d)", x)
		}
	default:
		b.Flip(0, 1<<32)
		b.Flip(0, 1<<32)
		what = "the complete universe after two whole-universe flips"
	}
	if r.Chance(0.3) {
		b.RunOptimize()
	}
	return b, m, what
}

func c03Universe(c *Ctx) {
	r := c.R
	b, m, what := buildUniverseScale(r)
	c.Step("%s (cardinality %d)", what, m.Card())
	c.Distinct(m.Hash())
	queryBattery(c, &BM{B: b, M: m}, 12)
	if c.Failed() {
		return
	}
	c.Guard("query/Equals", func() {
		o := b.Clone()
		if !o.Equals(b) || o.Checksum() != b.Checksum() {
			c.Fail("query/Equals/same-set", "a clone of %s is not Equal / has another Checksum", what)
		}
		x := edgeVal32(r, m)
		if m.Contains(x) {
			o.Remove(uint32(x))
		} else {
			o.Add(uint32(x))
		}
		if o.Equals(b) || b.Equals(o) {
			c.Fail("query/Equals/different-set", "Equals is true for sets that differ in value %d (%s)", x, what)
		}
		c.Eval(2)
	})
	c.Sample(map[string]any{"unit": "universe-scale", "case_seed": c.CaseSeed, "bitmap": what})
}

// c15Universe: neighbour queries on bitmaps at the scale of the universe (walks over thousands of full chunks, the
// "every integer on that side is present" answers).
func c15Universe(c *Ctx) {
	b, m, what := buildUniverseScale(c.R)
	c.Step("%s (cardinality %d)", what, m.Card())
	c.Distinct(m.Hash())
	targets := append(argBattery(c.R, m, 12), 0, 1, 65535, 65536, 1<<31, max32-65536, max32-1, max32)
	neighbourChecks(c, &BM{B: b, M: m}, targets, "")
	c.Sample(map[string]any{"unit": "universe-scale", "case_seed": c.CaseSeed, "bitmap": what})
}

// ---------------------------------------------------------------- C18: every bucket count

// The 64-bit analogue: the number of high-32 buckets (the 64-bit header, the plausibility checks of
// FromUnsafeBytes and the bucket tables of the decoders depend on it). Quick: every count 0..1500; thorough:
// every count 0..12000. Buckets are tiny (one value, a short run, two values).
func bucketCounts(tier string) int {
	if tier == "thorough" {
		return 12001
	}
	return 1501
}

func c18EveryBucketCount(c *Ctx, n int) {
	r := NewRng(mix(uint64(n), seedFromEnv()+77))
	b := roaring64.New()
	m := NewISet()
	stride, base := uint64(1), uint64(0)
	switch r.Intn(3) {
	case 0:
		base = r.Range(0, 1<<32-1-uint64(n))
	case 1:
		if n > 0 {
			stride = (1 << 32) / uint64(n+1)
		}
	default:
		base = 1<<32 - uint64(n) // ends at bucket 0xFFFFFFFF
	}
	mode := r.Intn(3) // 0 mixed, 1 single values (no run chunk anywhere), 2 one short run per bucket
	for i := 0; i < n; i++ {
		hi := (base + uint64(i)*stride) << 32
		kind := r.Intn(3)
		if mode == 1 {
			kind = 0
		} else if mode == 2 {
			kind = 1
		}
		switch kind {
		case 0:
			v := hi | r.Range(0, max32)
			b.Add(v)
			m.Add(v)
		case 1:
			lo := hi | r.Range(0, 65000)
			e := lo + r.Range(0, 40)
			b.AddRange(lo, e+1)
			m.AddRange(lo, e)
		default:
			v, w := hi|edgeVal64(r, m)&max32, hi|r.Range(0, max32)
			b.Add(v)
			b.Add(w)
			m.Add(v)
			m.Add(w)
		}
	}
	if r.Chance(0.3) {
		b.RunOptimize()
	}
	c.Step("roaring64 bitmap with exactly %d buckets (base %d stride %d mode %d)", n, base, stride, mode)
	if d := checkEq64(b, m); d != "" {
		c.Fail("64/build/n-buckets", "%s", d)
		return
	}
	if n > 0 {
		c.Distinct(uint64(n))
	}
	c.SetAdd("bucket_counts_enumerated", uint64(n))
	c.Guard("64/every-bucket-count", func() {
		if err := b.Validate(); err != nil {
			c.Fail("64/validate/library-made", "%d buckets: Validate: %v", n, err)
			return
		}
		wire, err := b.ToBytes()
		if err != nil || uint64(len(wire)) != b.GetSerializedSizeInBytes() {
			c.Fail("64/size/ToBytes-vs-GetSerializedSizeInBytes", "%d buckets: len(ToBytes)=%d err=%v GetSerializedSizeInBytes=%d", n, len(wire), err, b.GetSerializedSizeInBytes())
			return
		}
		var buf bytes.Buffer
		k, err := b.WriteTo(&buf)
		if err != nil || k != int64(buf.Len()) || !bytes.Equal(buf.Bytes(), wire) {
			c.Fail("64/WriteTo/bytes-or-count", "%d buckets: WriteTo returned (%d,%v), wrote %d bytes; ToBytes %d", n, k, err, buf.Len(), len(wire))
			return
		}
		if ps, used, _, ok := parse64(wire); !ok || used != len(wire) || !ps.Equal(m) {
			c.Fail("64/layout/independent-parser", "%d buckets: independent parse: ok=%v used=%d/%d equal=%v", n, ok, used, len(wire), ok && ps.Equal(m))
			return
		}
		tail := []byte{7, 7, 7, 7, 7, 7, 7, 7, 7}
		for _, name := range []string{"ReadFrom", "FromUnsafeBytes", "FromUnsafeBytes+tail", "UnmarshalBinary"} {
			dst := roaring64.New()
			if r.Chance(0.4) {
				// a receiver that held something else before
				for k := 0; k < 1+r.Intn(6); k++ {
					dst.Add(r.Range(0, 5)<<32 | r.Range(0, 70000))
				}
				c.Count("bucket_count_receiver_previously_used")
			}
			var got int64
			switch name {
			case "ReadFrom":
				rd := bytes.NewReader(append(append([]byte(nil), wire...), tail...))
				got, err = dst.ReadFrom(rd)
				if err == nil && rd.Len() != len(tail) {
					c.Fail("64/ReadFrom/consumed-beyond-stream", "%d buckets: ReadFrom left %d bytes unread, the tail has %d", n, rd.Len(), len(tail))
					return
				}
			case "FromUnsafeBytes":
				got, err = dst.FromUnsafeBytes(heapInput(wire))
			case "FromUnsafeBytes+tail":
				got, err = dst.FromUnsafeBytes(heapInput(append(append([]byte(nil), wire...), tail...)))
			default:
				err = dst.UnmarshalBinary(heapInput(wire))
				got = int64(len(wire))
			}
			if err != nil || got != int64(len(wire)) {
				c.Fail("64/"+name+"/error-or-byte-count", "%d buckets: %s = (%d,%v) for a %d byte stream", n, name, got, err, len(wire))
				return
			}
			if d := checkEq64(dst, m); d != "" {
				c.Fail("64/"+name+"/content", "%d buckets: %s", n, d)
				return
			}
			if err := dst.Validate(); err != nil {
				c.Fail("64/validate/round-trip", "%d buckets: %s result fails Validate: %v", n, name, err)
				return
			}
			c.Eval(3)
		}
		// the caller owns the returned bytes
		for i := range wire {
			wire[i] = 0xAA
		}
		if again, err := b.ToBytes(); err != nil || !bytes.Equal(again, buf.Bytes()) {
			c.Fail("64/ToBytes/after-caller-overwrote-earlier-result", "%d buckets: a second ToBytes differs from WriteTo after the caller overwrote the first result", n)
		}
	})
}

// ---------------------------------------------------------------- receiver growth x stream size (C05, C06)

// A reused receiver keeps three parallel tables whose capacities were rounded to different allocation classes by
// the appends (or the earlier decode) that grew them. Which capacities meet which chunk count of the stream being
// decoded is a two-dimensional space that random sampling covers thinly (seeded changes C06-r3m1, C10-r2m2,
// C05-r3m2 live there). This unit enumerates it for small sizes: receiver grown to g chunks (g = the case index,
// 1..400 quick / 1..1500 thorough) by one of three growth histories, then streams with every chunk count
// s = g-2 .. g + g/3 + 12 are decoded into (a fresh copy of) it.
func growthCases(tier string) int {
	if tier == "thorough" {
		return 1500
	}
	return 400
}

func grownReceiver(g int, history int) *roaring.Bitmap {
	b := roaring.New()
	switch history {
	case 0: // appended one chunk at a time
		for k := 0; k < g; k++ {
			b.Add(uint32(k)<<16 | 5)
		}
	case 1: // sized exactly by a decode of g/2 chunks, then appended
		src := roaring.New()
		for k := 0; k < g/2; k++ {
			src.Add(uint32(k)<<16 | 5)
		}
		if buf, err := src.ToBytes(); err == nil {
			b.ReadFrom(bytes.NewReader(buf))
		}
		for k := g / 2; k < g; k++ {
			b.Add(uint32(k)<<16 | 5)
		}
	default: // grown by inserting chunks in front (insertNewKeyValueAt) and cleared
		for k := g - 1; k >= 0; k-- {
			b.Add(uint32(k)<<16 | 5)
		}
		b.Clear()
	}
	return b
}

func receiverGrowthCase(c *Ctx, index int, foreign bool) {
	g := index + 1
	r := NewRng(mix(uint64(g), seedFromEnv()+5))
	c.Distinct(uint64(g))
	c.SetAdd("receiver_growth_sizes_enumerated", uint64(g))
	for s := g - 2; s <= g+g/3+12; s++ {
		if s < 0 {
			continue
		}
		m := NewISet()
		src := roaring.New()
		base := uint64(r.Intn(4))
		for k := uint64(0); k < uint64(s); k++ {
			v := (base+k)<<16 | r.Range(0, 65535)
			m.Add(v)
			src.Add(uint32(v))
		}
		var wire []byte
		if foreign {
			wire = specEncode(r, m, encChoice{ForceRunCookie: r.Chance(0.5), RunP: []float64{0, 0.5}[r.Intn(2)]})
		} else {
			var err error
			if wire, err = src.ToBytes(); err != nil {
				c.Fail("ToBytes/error", "%v", err)
				return
			}
		}
		history := r.Intn(3)
		entry := []string{"ReadFrom", "FromBuffer", "UnmarshalBinary", "FromUnsafeBytes"}[r.Intn(4)]
		dst := grownReceiver(g, history)
		c.hist = c.hist[:0]
		c.Step("receiver grown to %d chunks (history %d: 0 appended, 1 decoded-then-appended, 2 front-inserted-then-cleared); %s of a %d-chunk stream (foreign encoder=%v)", g, history, entry, s, foreign)
		var n int64
		var err error
		if c.Guard(entry+"/reused-receiver", func() {
			switch entry {
			case "ReadFrom":
				n, err = dst.ReadFrom(bytes.NewReader(wire))
			case "FromBuffer":
				n, err = dst.FromBuffer(wire)
			case "FromUnsafeBytes":
				n, err = dst.FromUnsafeBytes(wire)
			default:
				err = dst.UnmarshalBinary(wire)
				n = int64(len(wire))
			}
		}) {
			return
		}
		c.Eval(1)
		if err != nil || n != int64(len(wire)) {
			c.Fail(entry+"/reused-receiver/error-or-byte-count", "%s into a receiver grown to %d chunks: (%d,%v) for a conformant %d-chunk stream of %d bytes", entry, g, n, err, s, len(wire))
			return
		}
		if d := checkEq(dst, m); d != "" {
			c.Fail(entry+"/reused-receiver/content", "%s into a receiver grown to %d chunks, %d-chunk stream: %s", entry, g, s, d)
			return
		}
		// the decoded bitmap must keep working: one append and one removal
		x := uint64(s+int(base)+1)<<16 | 9
		if x <= max32 {
			dst.Add(uint32(x))
			m.Add(x)
		}
		if mn, ok := m.Min(); ok {
			dst.Remove(uint32(mn))
			m.Remove(mn)
		}
		if d := checkEq(dst, m); d != "" {
			c.Fail(entry+"/reused-receiver/then-mutated", "%s into a receiver grown to %d chunks, %d-chunk stream, then Add/Remove: %s", entry, g, s, d)
			return
		}
		_ = wire[len(wire)-1]
	}
}

// ---------------------------------------------------------------- C06: every run count of a run chunk

// Another implementation may run-encode any chunk with any number of runs (1..32768). The library itself never
// keeps more than 2047 runs, so counts above that exist only in foreign streams. Quick: every count 1..2200 plus
// every count within 2 of a multiple of 1024 up to 32768; thorough: every count 1..32768.
func runCounts(tier string) []int {
	var out []int
	if tier == "thorough" {
		for n := 1; n <= 32768; n++ {
			out = append(out, n)
		}
		return out
	}
	seen := map[int]bool{}
	for n := 1; n <= 2200; n++ {
		seen[n] = true
	}
	for k := 3; k <= 32; k++ {
		for d := -2; d <= 2; d++ {
			if 1024*k+d <= 32768 {
				seen[1024*k+d] = true
			}
		}
	}
	for n := range seen {
		out = append(out, n)
	}
	sort.Ints(out)
	return out
}

func c06EveryRunCount(c *Ctx, index int) {
	n := runCounts(c.Tier)[index]
	r := NewRng(mix(uint64(n), seedFromEnv()+6))
	c.R = r
	// n runs inside one chunk: n values + (n-1) gaps are mandatory, the slack is dealt out at random
	slack := 65536 - (2*n - 1)
	key := genKeys(r, 1)[0]
	m := NewISet()
	pos := uint64(0)
	if slack > 0 && r.Chance(0.7) {
		d := r.Range(0, uint64(slack))
		if r.Chance(0.5) {
			d = r.Range(0, minU(uint64(slack), 3))
		}
		pos += d
		slack -= int(d)
	}
	for i := 0; i < n; i++ {
		l := uint64(0)
		if slack > 0 && r.Chance(0.3) {
			l = r.Range(0, minU(uint64(slack), 40))
			slack -= int(l)
		}
		m.AddRange(key<<16|pos, key<<16|(pos+l))
		pos += l + 2
		if slack > 0 && r.Chance(0.2) {
			g := r.Range(0, minU(uint64(slack), 40))
			pos += g
			slack -= int(g)
		}
	}
	if i := m.NumIntervals(); i != n {
		c.Fail("harness/run-count", "harness: built %d runs, wanted %d", i, n)
		return
	}
	// neighbours: 0..5 small array chunks before / after (with >= 4 chunks the stream carries an offset header)
	nb := r.Intn(6)
	for j := 0; j < nb; j++ {
		k := genKeys(r, 1)[0]
		if k == key {
			continue
		}
		m.Add(k<<16 | r.Range(0, 65535))
	}
	ch := encChoice{ForceRunCookie: true, RunP: 1}
	// only the big chunk needs to be a run chunk; the others are run-encoded too (one run each), which is legal
	wire := specEncode(r, m, ch)
	if ds, used, _, err := specDecode(wire); err != nil || used != len(wire) || !ds.Equal(m) {
		c.Fail("harness/codec-inconsistent", "independent encoder/decoder disagree: err=%v used=%d/%d", err, used, len(wire))
		return
	}
	c.Step("foreign stream: a run chunk with exactly %d runs at key %d plus %d neighbour chunks (%d bytes)", n, key, nb, len(wire))
	c.Distinct(uint64(n))
	c.SetAdd("run_counts_enumerated", uint64(n))
	if !c06CheckRead(c, wire, m, ch) {
		return
	}
	// what the library makes of it must be writable again and conform in the write direction
	c.Guard("write/after-foreign-read", func() {
		dst := roaring.New()
		if _, err := dst.ReadFrom(bytes.NewReader(wire)); err != nil {
			return
		}
		out, err := dst.ToBytes()
		if err != nil {
			c.Fail("write/ToBytes-error", "%d runs: ToBytes of the decoded foreign bitmap failed: %v", n, err)
			return
		}
		ds, used, _, derr := specDecode(out)
		if derr != nil || used != len(out) || !ds.Equal(m) {
			c.Fail("write/after-foreign-read", "%d runs: re-serialized foreign bitmap: independent decoder err=%v used=%d/%d equal=%v", n, derr, used, len(out), ds != nil && ds.Equal(m))
		}
		c.Eval(1)
	})
}

// ---------------------------------------------------------------- C10: prefixes of the largest streams

// c10HugePrefixes: proper prefixes of valid streams of a bitmap holding all 65536 chunks (the chunk-count field at
// its maximum, under both cookies): the first 40 cuts, cuts around the header tables and sampled cuts.
func c10HugePrefixes(c *Ctx) {
	r := c.R
	var b *roaring.Bitmap
	var m *ISet
	want := r.Intn(2) // 0: a stream without run chunks (cookie 12346), 1: with run chunks (cookie 12347)
	for salt := uint64(0); salt < 40; salt++ {
		bb, mm, _ := buildNChunks(c, 65536, mix(c.CaseSeed, salt))
		hasRun := false
		for _, s := range bb.VerifView().Slots {
			if s.Kind == roaring.VerifRun {
				hasRun = true
				break
			}
		}
		if hasRun == (want == 1) {
			b, m = bb, mm
			break
		}
	}
	if b == nil {
		c.Note("no 65536-chunk bitmap of the wanted cookie kind was generated")
		return
	}
	wire, err := b.ToBytes()
	if err != nil {
		c.Fail("ToBytes/error", "%v", err)
		return
	}
	c.Step("valid portable stream of %d bytes for a bitmap with 65536 chunks (run cookie=%v); sampled proper prefixes", len(wire), want == 1)
	c.Count(fmt.Sprintf("huge_prefix_stream_cookie_%d", uint32(wire[0])|uint32(wire[1])<<8))
	cuts := []int{len(wire) - 1, len(wire) - 2, len(wire) - 9}
	for k := 0; k < 40; k++ {
		cuts = append(cuts, k)
	}
	// header tables: run flags (8192 bytes), key/cardinality table (4 x 65536), offset table (4 x 65536)
	for _, e := range []int{4 + 8192, 8 + 4*65536, 4 + 8192 + 4*65536, 8 + 8*65536, 4 + 8192 + 8*65536} {
		for d := -2; d <= 2; d++ {
			cuts = append(cuts, e+d)
		}
	}
	for i := 0; i < 25; i++ {
		cuts = append(cuts, r.Intn(len(wire)))
	}
	for _, k := range cuts {
		if c.Failed() {
			return
		}
		if k < 0 || k >= len(wire) {
			continue
		}
		_, done := feedAll(c, wire[:k], "prefix", true)
		done()
		c.Distinct(mix(m.Hash(), uint64(k)))
	}
	c.CountN("prefixes_fed", int64(len(cuts)))
}
