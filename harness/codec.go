package main

// Independent codecs written from the published format descriptions (RoaringFormatSpec
// and the CRoaring frozen layout). They share no code with the library: plain
// encoding/binary over byte slices. Used as oracles by C05, C06, C10, C13.

import (
	"encoding/binary"
	"fmt"
	"math/bits"
)

const (
	cookieNoRun = 12346
	cookieRun   = 12347
	frozenMagic = 13766
)

type specChunk struct {
	Key   uint16
	Kind  string // "array" | "bitmap" | "run"
	Card  int
	NRuns int
	Off   int // payload offset in the stream
}

type specInfo struct {
	Cookie     uint32
	N          int
	HasOffsets bool
	Chunks     []specChunk
	Strict     []string // violations of rules that canonical writers obey (not decoding errors)
}

// specDecode decodes a portable stream. It returns the set, the number of bytes the
// stream occupies, structural information, and an error if the bytes are not a
// well-formed stream under the spec.
func specDecode(b []byte) (*ISet, int, *specInfo, error) {
	info := &specInfo{}
	if len(b) < 4 {
		return nil, 0, info, fmt.Errorf("shorter than a cookie")
	}
	ck := binary.LittleEndian.Uint32(b)
	pos := 4
	var n int
	var runFlags []byte
	switch {
	case ck&0xFFFF == cookieRun:
		info.Cookie = cookieRun
		n = int(ck>>16) + 1
		fl := (n + 7) / 8
		if len(b) < pos+fl {
			return nil, 0, info, fmt.Errorf("truncated run-flag bitset")
		}
		runFlags = b[pos : pos+fl]
		pos += fl
	case ck == cookieNoRun:
		info.Cookie = cookieNoRun
		if len(b) < 8 {
			return nil, 0, info, fmt.Errorf("truncated chunk count")
		}
		n = int(binary.LittleEndian.Uint32(b[4:]))
		pos = 8
		if n > 65536 {
			return nil, 0, info, fmt.Errorf("chunk count %d > 65536", n)
		}
	default:
		return nil, 0, info, fmt.Errorf("unknown cookie %d", ck)
	}
	info.N = n
	if len(b) < pos+4*n {
		return nil, 0, info, fmt.Errorf("truncated descriptive header")
	}
	keys := make([]uint16, n)
	cards := make([]int, n)
	for i := 0; i < n; i++ {
		keys[i] = binary.LittleEndian.Uint16(b[pos+4*i:])
		cards[i] = int(binary.LittleEndian.Uint16(b[pos+4*i+2:])) + 1
		if i > 0 && keys[i] <= keys[i-1] {
			info.Strict = append(info.Strict, fmt.Sprintf("keys not strictly ascending at %d", i))
		}
	}
	pos += 4 * n
	info.HasOffsets = info.Cookie == cookieNoRun || n >= 4
	var offsets []uint32
	if info.HasOffsets {
		if len(b) < pos+4*n {
			return nil, 0, info, fmt.Errorf("truncated offset header")
		}
		offsets = make([]uint32, n)
		for i := range offsets {
			offsets[i] = binary.LittleEndian.Uint32(b[pos+4*i:])
		}
		pos += 4 * n
	}
	var ivs []IV
	for i := 0; i < n; i++ {
		base := uint64(keys[i]) << 16
		isRun := runFlags != nil && runFlags[i/8]&(1<<uint(i%8)) != 0
		ch := specChunk{Key: keys[i], Card: cards[i], Off: pos}
		if offsets != nil && int(offsets[i]) != pos {
			info.Strict = append(info.Strict, fmt.Sprintf("offset[%d]=%d but the payload starts at %d", i, offsets[i], pos))
		}
		switch {
		case isRun:
			ch.Kind = "run"
			if len(b) < pos+2 {
				return nil, 0, info, fmt.Errorf("truncated run count")
			}
			nr := int(binary.LittleEndian.Uint16(b[pos:]))
			pos += 2
			if len(b) < pos+4*nr {
				return nil, 0, info, fmt.Errorf("truncated runs")
			}
			ch.NRuns = nr
			card := 0
			prevEnd := -1
			for k := 0; k < nr; k++ {
				st := int(binary.LittleEndian.Uint16(b[pos+4*k:]))
				ln := int(binary.LittleEndian.Uint16(b[pos+4*k+2:]))
				if st+ln > 65535 {
					return nil, 0, info, fmt.Errorf("run %d of chunk %d exceeds 65535", k, i)
				}
				if st <= prevEnd {
					info.Strict = append(info.Strict, fmt.Sprintf("runs of chunk %d unsorted/overlapping at %d", i, k))
				} else if st == prevEnd+1 && k > 0 {
					info.Strict = append(info.Strict, fmt.Sprintf("runs of chunk %d adjacent at %d", i, k))
				}
				prevEnd = st + ln
				card += ln + 1
				ivs = append(ivs, IV{base | uint64(st), base | uint64(st+ln)})
			}
			if card != cards[i] {
				info.Strict = append(info.Strict, fmt.Sprintf("chunk %d: cardinality field %d but runs hold %d", i, cards[i], card))
			}
			if nr == 0 {
				info.Strict = append(info.Strict, fmt.Sprintf("chunk %d: zero runs", i))
			}
			pos += 4 * nr
		case cards[i] <= 4096:
			ch.Kind = "array"
			if len(b) < pos+2*cards[i] {
				return nil, 0, info, fmt.Errorf("truncated array")
			}
			prev := -1
			for k := 0; k < cards[i]; k++ {
				v := int(binary.LittleEndian.Uint16(b[pos+2*k:]))
				if v <= prev {
					info.Strict = append(info.Strict, fmt.Sprintf("array of chunk %d not strictly increasing at %d", i, k))
				}
				prev = v
				u := base | uint64(v)
				if m := len(ivs); m > 0 && ivs[m-1].Hi+1 == u && ivs[m-1].Hi>>16 == u>>16 {
					ivs[m-1].Hi = u
				} else {
					ivs = append(ivs, IV{u, u})
				}
			}
			pos += 2 * cards[i]
		default:
			ch.Kind = "bitmap"
			if len(b) < pos+8192 {
				return nil, 0, info, fmt.Errorf("truncated bitmap")
			}
			pc := 0
			for w := 0; w < 1024; w++ {
				word := binary.LittleEndian.Uint64(b[pos+8*w:])
				pc += bits.OnesCount64(word)
				for word != 0 {
					t := bits.TrailingZeros64(word)
					u := base | uint64(w*64+t)
					if m := len(ivs); m > 0 && ivs[m-1].Hi+1 == u && ivs[m-1].Hi>>16 == u>>16 {
						ivs[m-1].Hi = u
					} else {
						ivs = append(ivs, IV{u, u})
					}
					word &= word - 1
				}
			}
			if pc != cards[i] {
				info.Strict = append(info.Strict, fmt.Sprintf("chunk %d: cardinality field %d but bitmap popcount %d", i, cards[i], pc))
			}
			pos += 8192
		}
		info.Chunks = append(info.Chunks, ch)
	}
	return ivsToSet(ivs), pos, info, nil
}

// encChoice controls the legal choices another implementation may make.
type encChoice struct {
	ForceRunCookie bool    // use cookie 12347 even without run chunks
	RunP           float64 // probability that a chunk is run-encoded (when allowed)
	SplitRuns      bool    // split maximal runs into adjacent pieces
}

// specEncode encodes the set under the given choices; it returns the stream.
func specEncode(r *Rng, m *ISet, ch encChoice) []byte {
	type chunk struct {
		key   uint16
		ivs   []IV // within chunk, low 16 bits
		card  int
		asRun bool
	}
	var chunks []*chunk
	for _, v := range splitAtChunks(m.Intervals()) {
		k := uint16(v.Lo >> 16)
		if len(chunks) == 0 || chunks[len(chunks)-1].key != k {
			chunks = append(chunks, &chunk{key: k})
		}
		c := chunks[len(chunks)-1]
		c.ivs = append(c.ivs, IV{v.Lo & 0xFFFF, v.Hi & 0xFFFF})
		c.card += int(v.Hi-v.Lo) + 1
	}
	anyRun := false
	for _, c := range chunks {
		if r.Chance(ch.RunP) {
			c.asRun = true
			anyRun = true
		}
	}
	n := len(chunks)
	useRunCookie := (anyRun || ch.ForceRunCookie) && n > 0
	if !useRunCookie {
		for _, c := range chunks {
			c.asRun = false
		}
	}
	var out []byte
	le16 := func(v int) { out = append(out, byte(v), byte(v>>8)) }
	le32 := func(v int) { out = append(out, byte(v), byte(v>>8), byte(v>>16), byte(v>>24)) }
	if useRunCookie {
		le32(cookieRun | (n-1)<<16)
		fl := make([]byte, (n+7)/8)
		for i, c := range chunks {
			if c.asRun {
				fl[i/8] |= 1 << uint(i%8)
			}
		}
		out = append(out, fl...)
	} else {
		le32(cookieNoRun)
		le32(n)
	}
	for _, c := range chunks {
		le16(int(c.key))
		le16(c.card - 1)
	}
	// payloads
	payloads := make([][]byte, n)
	for i, c := range chunks {
		var p []byte
		p16 := func(v int) { p = append(p, byte(v), byte(v>>8)) }
		switch {
		case c.asRun:
			runs := c.ivs
			if ch.SplitRuns {
				var sp []IV
				for _, v := range runs {
					lo := v.Lo
					for lo < v.Hi && r.Chance(0.5) {
						mid := r.Range(lo, v.Hi-1)
						sp = append(sp, IV{lo, mid})
						lo = mid + 1
					}
					sp = append(sp, IV{lo, v.Hi})
				}
				runs = sp
			}
			p16(len(runs))
			for _, v := range runs {
				p16(int(v.Lo))
				p16(int(v.Hi - v.Lo))
			}
		case c.card <= 4096:
			for _, v := range c.ivs {
				for x := v.Lo; x <= v.Hi; x++ {
					p16(int(x))
				}
			}
		default:
			words := make([]uint64, 1024)
			for _, v := range c.ivs {
				for x := v.Lo; x <= v.Hi; x++ {
					words[x/64] |= 1 << (x % 64)
				}
			}
			p = make([]byte, 8192)
			for w, word := range words {
				binary.LittleEndian.PutUint64(p[8*w:], word)
			}
		}
		payloads[i] = p
	}
	if !useRunCookie || n >= 4 {
		off := len(out) + 4*n
		for i := range chunks {
			le32(off)
			off += len(payloads[i])
		}
	}
	for _, p := range payloads {
		out = append(out, p...)
	}
	return out
}

// ---------------------------------------------------------------- frozen layout

type frozenInfo struct {
	N                     int
	NBitmap, NRun, NArray int
	Types                 []byte
	Counts                []uint16
	Keys                  []uint16
}

// frozenDecode parses the CRoaring frozen layout independently.
func frozenDecode(b []byte) (*ISet, *frozenInfo, error) {
	if len(b) < 4 {
		return nil, nil, fmt.Errorf("shorter than the header")
	}
	h := binary.LittleEndian.Uint32(b[len(b)-4:])
	if h&0x7FFF != frozenMagic {
		return nil, nil, fmt.Errorf("bad cookie %d", h&0x7FFF)
	}
	n := int(h >> 15)
	fi := &frozenInfo{N: n}
	end := len(b) - 4
	if end < 5*n {
		return nil, fi, fmt.Errorf("too short for %d chunks", n)
	}
	fi.Types = b[end-n : end]
	end -= n
	fi.Counts = make([]uint16, n)
	for i := range fi.Counts {
		fi.Counts[i] = binary.LittleEndian.Uint16(b[end-2*n+2*i:])
	}
	end -= 2 * n
	fi.Keys = make([]uint16, n)
	for i := range fi.Keys {
		fi.Keys[i] = binary.LittleEndian.Uint16(b[end-2*n+2*i:])
	}
	end -= 2 * n
	nRunEl, nArrEl := 0, 0
	for i, t := range fi.Types {
		switch t {
		case 1:
			fi.NBitmap++
		case 2:
			fi.NArray++
			nArrEl += int(fi.Counts[i]) + 1
		case 3:
			fi.NRun++
			nRunEl += int(fi.Counts[i])
		default:
			return nil, fi, fmt.Errorf("type code %d", t)
		}
	}
	if end != 8192*fi.NBitmap+4*nRunEl+2*nArrEl {
		return nil, fi, fmt.Errorf("arena size mismatch: %d bytes for %d bitmap chunks, %d runs, %d array values", end, fi.NBitmap, nRunEl, nArrEl)
	}
	bpos := 0
	rpos := 8192 * fi.NBitmap
	apos := rpos + 4*nRunEl
	var ivs []IV
	for i, t := range fi.Types {
		base := uint64(fi.Keys[i]) << 16
		switch t {
		case 1:
			pc := 0
			for w := 0; w < 1024; w++ {
				word := binary.LittleEndian.Uint64(b[bpos+8*w:])
				pc += bits.OnesCount64(word)
				for word != 0 {
					tz := bits.TrailingZeros64(word)
					u := base | uint64(w*64+tz)
					if m := len(ivs); m > 0 && ivs[m-1].Hi+1 == u && ivs[m-1].Hi>>16 == u>>16 {
						ivs[m-1].Hi = u
					} else {
						ivs = append(ivs, IV{u, u})
					}
					word &= word - 1
				}
			}
			if pc != int(fi.Counts[i])+1 {
				return nil, fi, fmt.Errorf("chunk %d: count field %d but popcount %d", i, fi.Counts[i], pc)
			}
			bpos += 8192
		case 2:
			for k := 0; k <= int(fi.Counts[i]); k++ {
				u := base | uint64(binary.LittleEndian.Uint16(b[apos:]))
				apos += 2
				if m := len(ivs); m > 0 && ivs[m-1].Hi+1 == u && ivs[m-1].Hi>>16 == u>>16 {
					ivs[m-1].Hi = u
				} else {
					ivs = append(ivs, IV{u, u})
				}
			}
		case 3:
			for k := 0; k < int(fi.Counts[i]); k++ {
				st := uint64(binary.LittleEndian.Uint16(b[rpos:]))
				ln := uint64(binary.LittleEndian.Uint16(b[rpos+2:]))
				rpos += 4
				if st+ln > 65535 {
					return nil, fi, fmt.Errorf("chunk %d: run exceeds 65535", i)
				}
				ivs = append(ivs, IV{base | st, base | (st + ln)})
			}
		}
	}
	return ivsToSet(ivs), fi, nil
}
