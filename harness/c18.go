package main

import (
	"bytes"
	"encoding/base64"
	"encoding/binary"

	"github.com/RoaringBitmap/roaring/v2/roaring64"
)

func init() {
	register(&Property{
		ID: "C18", Level: "fault_enumeration", Builds: []string{"plain", "checkptr", "race"}, RlimitAS: 6 << 30,
		Rule:        "cases = roaring64 bitmaps from generated histories (several buckets incl. 0 and 0xFFFFFFFF, empty bitmap) serialized with WriteTo/ToBytes/MarshalBinary/ToBase64 and read back through ReadFrom (plain, chunked 1-7 bytes, sentinel tail), FromUnsafeBytes, UnmarshalBinary, FromBase64 into fresh and reused receivers: Equal, byte counts (GetSerializedSizeInBytes = len = n written = n read), exact consumption, Validate on the original and on every round trip, an independent parse of the 64-bit layout (count, key, embedded 32-bit portable stream), and a failing writer at every offset. FAULT ENUMERATION: ALL proper prefixes of streams <= 4 KiB (sampled above) and corruptions of the bucket count (+1, x2, 2^31, 2^32, 2^40, 2^50, 2^62, 2^63, 2^64-1), of keys (swap, duplicate) and of the inner cookies/sizes/fields (the C10 portable mutators applied to an embedded stream) are fed to all four decoders: each must return an error or a bitmap - a panic, or the death of the worker process (address space limited to 6 GiB so that an attacker-sized allocation is a fast attributable failure) is a violation. Non-trivial: corrupted/truncated or non-empty input; distinct = hash of the bytes. Race build: independent bitmaps on independent goroutines (4-32 goroutines, GOMAXPROCS 1-16; every writer through a writer that yields inside Write, every decoder through a reader that yields inside Read, private mutations in between) must neither race inside the library nor influence each other (each goroutine checks its own model, an independent decoder and byte equality of all writers). Exhaustive sub-space: every bucket count 0..1500 (thorough 0..12000). The zero-copy decoder is also fed from PROT_NONE-guarded memory (plain build); heap inputs of the checkptr build carry 16 bytes of slack. Second generation of decoded, mutated bitmaps.",
		Assumptions: []string{"a decoder that returned an error leaves a bitmap that is not used further", "hangs are judged by the parent's watchdog"},
		Units: []Unit{
			{Name: "roundtrip64@plain,checkptr", Quick: 1200, Thorough: 60000, Run: c18RoundTrip},
			{Name: "prefixes64@plain,checkptr", Quick: 160, Thorough: 6000, Run: c18Prefixes},
			{Name: "corrupt64@plain,checkptr", Quick: 4000, Thorough: 200000, Run: c18Corrupt},
			{Name: "every-bucket-count@plain,checkptr", ExhaustiveN: bucketCounts, RunIndexed: c18EveryBucketCount},
			{Name: "independent-bitmaps-concurrently@race", Quick: 6, Thorough: 200, Run: func(c *Ctx) { concIndependent(c, "portable64") }},
		},
	})
}

// parse64 independently parses the 64-bit layout.
func parse64(b []byte) (*ISet, int, []int, bool) {
	if len(b) < 8 {
		return nil, 0, nil, false
	}
	n := binary.LittleEndian.Uint64(b)
	pos := 8
	var ivs []IV
	var innerOffs []int
	for i := uint64(0); i < n; i++ {
		if len(b) < pos+4 {
			return nil, 0, nil, false
		}
		key := uint64(binary.LittleEndian.Uint32(b[pos:]))
		pos += 4
		innerOffs = append(innerOffs, pos)
		s, used, _, err := specDecode(b[pos:])
		if err != nil {
			return nil, 0, nil, false
		}
		pos += used
		for _, v := range s.iv {
			ivs = append(ivs, IV{key<<32 | v.Lo, key<<32 | v.Hi})
		}
	}
	return ivsToSet(ivs), pos, innerOffs, true
}

func gen64History(c *Ctx) *BM64 {
	bm := genBM64(c)
	c.Step("start form=%s set=%v", bm.Form, descSet(bm.M))
	for i := c.R.Intn(6); i > 0 && !c.Failed(); i-- {
		mutateStep64(c, bm, false)
	}
	return bm
}

// heapInput returns a private heap copy of data for a zero-copy decoder. In the checkptr build the allocation is
// 16 bytes longer than the slice handed out (cap == len all the same): checkptr's "converted pointer straddles
// multiple allocations" judges the extent of the *element type* at the converted address, so the library's
// zero-length view of a run chunk with 0 runs (corrupt input) that starts 1-3 bytes before the end of the
// allocation is reported although no byte is ever read through it. That is a policy stricter than the property
// (a pointer formed inside the caller's bytes and never dereferenced; DESIGN section 9); with the slack, checkptr
// still reports every view that reaches 16 or more bytes past the input, and byte-exact over-READS are the business
// of the guard pages (overread64 below, C10's placements).
func heapInput(data []byte) []byte {
	if curVariant != "checkptr" {
		return append([]byte(nil), data...)
	}
	b := make([]byte, len(data), len(data)+16)
	copy(b, data)
	return b[:len(data):len(data)]
}

// overread64 hands data to the zero-copy 64-bit decoder in guard memory (last byte right before a PROT_NONE page,
// first byte right after one for the other placement): any read outside the given bytes faults.
func overread64(c *Ctx, data []byte, sig string) {
	if curVariant != "plain" {
		return
	}
	for _, endFlush := range []bool{true, false} {
		reg, err := NewGuard(data, endFlush)
		if err != nil {
			c.Note("mmap failed: " + err.Error())
			return
		}
		dst := roaring64.New()
		var derr error
		pv, st := Try(func() { _, derr = dst.FromUnsafeBytes(reg.Payload) })
		stage := "decoding"
		if pv == nil && derr == nil {
			// an accepted bitmap must not refer to memory outside the given bytes either
			stage = "validating the accepted bitmap"
			pv, st = Try(func() { _ = dst.Validate() })
		}
		c.Eval(1)
		c.Count("guarded64_FromUnsafeBytes")
		if pv != nil {
			// (a Go panic is judged by the entry-point loop below, on a heap copy; only memory faults count here)
			if d, isFault := classifyFault(pv); isFault {
				c.Fail(sig+"/FromUnsafeBytes/reads-outside-input", "roaring64 FromUnsafeBytes (end-flush=%v) touched memory outside the given %d bytes while %s: %s\n%v\n%s", endFlush, len(data), stage, d, pv, st)
			}
		}
		dst = nil
		reg.Free()
		if c.Failed() {
			return
		}
	}
}

func feed64(c *Ctx, data []byte, sig string, expectReject bool) []*roaring64.Bitmap {
	var acc []*roaring64.Bitmap
	overread64(c, data, sig)
	type ent struct {
		name string
		run  func(dst *roaring64.Bitmap) error
	}
	ents := []ent{
		{"ReadFrom", func(dst *roaring64.Bitmap) error { _, e := dst.ReadFrom(bytes.NewReader(data)); return e }},
		{"FromUnsafeBytes", func(dst *roaring64.Bitmap) error {
			_, e := dst.FromUnsafeBytes(heapInput(data))
			return e
		}},
		{"UnmarshalBinary", func(dst *roaring64.Bitmap) error { return dst.UnmarshalBinary(heapInput(data)) }},
		{"FromBase64", func(dst *roaring64.Bitmap) error {
			_, e := dst.FromBase64(base64.StdEncoding.EncodeToString(data))
			return e
		}},
	}
	for _, e := range ents {
		dst := roaring64.New()
		var err error
		pv, st := Try(func() { err = e.run(dst) })
		c.Eval(1)
		if pv != nil {
			c.Fail(sig+"/"+e.name+"/panic", "roaring64 %s panicked on untrusted input (%d bytes): %v\n%s", e.name, len(data), pv, st)
			continue
		}
		if err == nil {
			c.Count("accepted64_" + e.name)
			if expectReject {
				// a prefix can be a complete shorter stream only if it parses exactly; the oracle decides
				if _, used, _, ok := parse64(data); !ok || used != len(data) {
					c.Fail(sig+"/"+e.name+"/accepted", "roaring64 %s accepted a proper prefix (%d bytes) of a valid stream", e.name, len(data))
				}
			}
			acc = append(acc, dst)
		} else {
			c.Count("rejected64_" + e.name)
		}
	}
	return acc
}

func c18RoundTrip(c *Ctx) {
	r := c.R
	bm := gen64History(c)
	if c.Failed() {
		return
	}
	b, m := bm.B, bm.M
	if !m.IsEmpty() {
		c.Distinct(m.Hash())
	}
	if !validate64(c, b, "library-made") {
		return
	}
	var wire []byte
	if c.Guard("64/write", func() {
		var err error
		wire, err = b.ToBytes()
		if err != nil {
			c.Fail("64/ToBytes/error", "%v", err)
			return
		}
		if uint64(len(wire)) != b.GetSerializedSizeInBytes() {
			c.Fail("64/size/ToBytes-vs-GetSerializedSizeInBytes", "len(ToBytes)=%d GetSerializedSizeInBytes=%d", len(wire), b.GetSerializedSizeInBytes())
		}
		var buf bytes.Buffer
		n, err := b.WriteTo(&buf)
		if err != nil || n != int64(buf.Len()) || !bytes.Equal(buf.Bytes(), wire) {
			c.Fail("64/WriteTo/bytes-or-count", "WriteTo returned (%d,%v), wrote %d bytes; ToBytes %d", n, err, buf.Len(), len(wire))
		}
		mb, err := b.MarshalBinary()
		if err != nil || !bytes.Equal(mb, wire) {
			c.Fail("64/MarshalBinary/bytes", "MarshalBinary differs from ToBytes (err=%v)", err)
		}
		s64, err := b.ToBase64()
		if dec, derr := base64.StdEncoding.DecodeString(s64); err != nil || derr != nil || !bytes.Equal(dec, wire) {
			c.Fail("64/ToBase64/bytes", "ToBase64 does not decode to the ToBytes stream")
		}
		c.Eval(4)
	}) || c.Failed() {
		return
	}
	// independent parse
	ps, used, _, ok := parse64(wire)
	if !ok || used != len(wire) || !ps.Equal(m) {
		c.Fail("64/layout/independent-parser", "independent parse of the 64-bit stream: ok=%v used=%d/%d equal=%v", ok, used, len(wire), ok && ps.Equal(m))
		return
	}
	// failing writer
	c.Guard("64/WriteTo/failing-writer", func() {
		var offs []int
		if len(wire) <= 4096 {
			for k := 0; k < len(wire); k++ {
				offs = append(offs, k)
			}
		} else {
			for i := 0; i < 80; i++ {
				offs = append(offs, r.Intn(len(wire)))
			}
			offs = append(offs, 0, 7, 8, 11, 12, len(wire)-1)
		}
		for _, k := range offs {
			n, err := b.WriteTo(&failWriter{limit: k})
			c.Eval(1)
			if err == nil {
				c.Fail("64/WriteTo/failing-writer/nil-error", "roaring64 WriteTo returned (%d,nil) although the writer failed at offset %d of %d", n, k, len(wire))
				return
			}
		}
		c.CountN("writer_failure_offsets", int64(len(offs)))
	})
	if c.Failed() {
		return
	}
	tail := []byte{1, 2, 3, 4, 5, 6, 7, 8, 9, 0x3A, 0x30}
	type entry struct {
		name string
		run  func(dst *roaring64.Bitmap) (int64, error)
	}
	entries := []entry{
		{"ReadFrom/bytes.Reader+tail", func(dst *roaring64.Bitmap) (int64, error) {
			rd := bytes.NewReader(append(append([]byte(nil), wire...), tail...))
			n, err := dst.ReadFrom(rd)
			if err == nil && rd.Len() != len(tail) {
				c.Fail("64/ReadFrom/consumed-beyond-stream", "ReadFrom left %d bytes unread, the tail has %d", rd.Len(), len(tail))
			}
			return n, err
		}},
		{"ReadFrom/chunked-1-7", func(dst *roaring64.Bitmap) (int64, error) {
			return dst.ReadFrom(&chunkedReader{data: append([]byte(nil), wire...), r: r})
		}},
		{"ReadFrom/source-zoo", func(dst *roaring64.Bitmap) (int64, error) {
			src := sourceZoo(r, wire)
			defer src.done()
			c.Step("source: %s", src.name)
			c.Count("source_" + src.name)
			return dst.ReadFrom(src.rd)
		}},
		{"FromUnsafeBytes", func(dst *roaring64.Bitmap) (int64, error) {
			buf := append(append([]byte(nil), wire...), tail...)
			keepAlive64 = append(keepAlive64, buf)
			return dst.FromUnsafeBytes(buf)
		}},
		{"UnmarshalBinary", func(dst *roaring64.Bitmap) (int64, error) {
			return int64(len(wire)), dst.UnmarshalBinary(append([]byte(nil), wire...))
		}},
		{"FromBase64", func(dst *roaring64.Bitmap) (int64, error) {
			return dst.FromBase64(base64.StdEncoding.EncodeToString(wire))
		}},
	}
	for _, e := range entries {
		if c.Failed() {
			return
		}
		dst := roaring64.New()
		how := "fresh"
		if r.Chance(0.5) {
			pm := genSet64(r, 4)
			if p, es := build64(r, pm, "addmany"); es == "" {
				dst, how = p.B, "reused"
			}
		}
		c.Step("decode via %s into a %s receiver", e.name, how)
		var n int64
		var err error
		if c.Guard("64/"+e.name, func() { n, err = e.run(dst) }) {
			return
		}
		c.Count("decode64_" + e.name)
		if err != nil {
			c.Fail("64/"+e.name+"/error", "%s failed on the library's own bytes: %v", e.name, err)
			return
		}
		if n != int64(len(wire)) {
			c.Fail("64/"+e.name+"/byte-count", "%s reported %d bytes, the stream has %d", e.name, n, len(wire))
			return
		}
		if d := checkEq64(dst, m); d != "" {
			c.Fail("64/"+e.name+"/content/"+how, "%s into a %s receiver: %s", e.name, how, d)
			return
		}
		if !dst.Equals(b) {
			c.Fail("64/"+e.name+"/Equals", "decoded 64-bit bitmap is not Equal to the original")
			return
		}
		if !validate64(c, dst, "roundtrip-"+e.name) {
			return
		}
		c.Eval(4)
		dm := &BM64{B: dst, M: m.Clone()}
		for i := 0; i < 8 && !c.Failed(); i++ {
			op := mutateStep64(c, dm, false)
			if d := checkEq64(dm.B, dm.M); d != "" {
				c.Fail("64/"+e.name+"/then-"+op, "%s", d)
			}
		}
		// second generation: the mutated bitmap is written again, loaded into a fresh bitmap and over itself
		if !c.Failed() {
			c.Step("second generation: serialize the mutated bitmap, reload it into a fresh bitmap and over itself")
			c.Guard("64/"+e.name+"/second-generation", func() {
				wire2, err := dm.B.ToBytes()
				if err != nil || uint64(len(wire2)) != dm.B.GetSerializedSizeInBytes() {
					c.Fail("64/"+e.name+"/second-generation/ToBytes", "ToBytes err=%v len=%d GetSerializedSizeInBytes=%d", err, len(wire2), dm.B.GetSerializedSizeInBytes())
					return
				}
				fresh := roaring64.New()
				if n2, err := fresh.ReadFrom(bytes.NewReader(wire2)); err != nil || n2 != int64(len(wire2)) {
					c.Fail("64/"+e.name+"/second-generation/ReadFrom", "second generation ReadFrom = (%d,%v) for %d bytes", n2, err, len(wire2))
					return
				}
				if d := checkEq64(fresh, dm.M); d != "" {
					c.Fail("64/"+e.name+"/second-generation/content", "second generation (fresh receiver): %s", d)
					return
				}
				var n2 int64
				if r.Chance(0.5) {
					n2, err = dm.B.ReadFrom(bytes.NewReader(wire2))
				} else {
					err = dm.B.UnmarshalBinary(heapInput(wire2))
					n2 = int64(len(wire2))
				}
				if err != nil || n2 != int64(len(wire2)) {
					c.Fail("64/"+e.name+"/second-generation/reload-over-itself", "reloading a 64-bit bitmap from its own bytes = (%d,%v) for %d bytes", n2, err, len(wire2))
					return
				}
				if d := checkEq64(dm.B, dm.M); d != "" {
					c.Fail("64/"+e.name+"/second-generation/reload-over-itself/content", "after reloading the bitmap from its own bytes: %s", d)
					return
				}
				if !validate64(c, dm.B, "second-generation-"+e.name) {
					return
				}
				op := mutateStep64(c, dm, false)
				if d := checkEq64(dm.B, dm.M); d != "" && !c.Failed() {
					c.Fail("64/"+e.name+"/second-generation/then-"+op, "%s", d)
				}
				c.Eval(4)
			})
		}
	}
	c.Sample(map[string]any{"unit": "roundtrip64", "case_seed": c.CaseSeed, "bytes": len(wire), "set": descSet(m)})
}

func valid64(c *Ctx) ([]byte, *ISet) {
	r := c.R
	m := genSet64(r, 3)
	if m.IsEmpty() && r.Chance(0.8) {
		m.Add(edgeVal64(r, m))
	}
	bm, es := build64(r, m, []string{"addmany", "opt", "range"}[r.Intn(3)])
	if es != "" {
		return nil, nil
	}
	w, err := bm.B.ToBytes()
	if err != nil {
		return nil, nil
	}
	return w, m
}

func c18Prefixes(c *Ctx) {
	r := c.R
	wire, m := valid64(c)
	if wire == nil {
		return
	}
	c.Step("valid 64-bit stream of %d bytes for %v; proper prefixes", len(wire), descSet(m))
	var cuts []int
	if len(wire) <= 4096 {
		for k := 0; k < len(wire); k++ {
			cuts = append(cuts, k)
		}
		c.Count("streams_with_all_prefixes_enumerated")
	} else {
		for k := 0; k < 30; k++ {
			cuts = append(cuts, k)
		}
		for i := 0; i < 100; i++ {
			cuts = append(cuts, r.Intn(len(wire)))
		}
		cuts = append(cuts, len(wire)-1, len(wire)-2)
	}
	for _, k := range cuts {
		if c.Failed() {
			return
		}
		feed64(c, wire[:k], "64/prefix", true)
		c.Distinct(mix(sumBytes(wire), uint64(k)))
	}
	c.CountN("prefixes_fed", int64(len(cuts)))
}

func c18Corrupt(c *Ctx) {
	r := c.R
	wire, m := valid64(c)
	if wire == nil {
		return
	}
	_, _, innerOffs, ok := parse64(wire)
	if !ok {
		c.Fail("harness/parse64", "independent parser rejects the library's bytes")
		return
	}
	bad := append([]byte(nil), wire...)
	n := binary.LittleEndian.Uint64(wire)
	how := ""
	switch x := r.Intn(10); {
	case x < 4:
		cnt := []uint64{n + 1, n * 2, n - 1, 1 << 31, 1 << 32, 1 << 40, 1 << 50, 1 << 62, 1 << 63, maxU64, 1 << 20, 1 << 27, 1 << 30, 1 << 33}[r.Intn(14)]
		binary.LittleEndian.PutUint64(bad, cnt)
		how = "bucket-count"
	case x == 4 && len(innerOffs) >= 2:
		i, j := r.Intn(len(innerOffs)), r.Intn(len(innerOffs))
		for k := 0; k < 4; k++ {
			bad[innerOffs[i]-4+k], bad[innerOffs[j]-4+k] = bad[innerOffs[j]-4+k], bad[innerOffs[i]-4+k]
		}
		how = "keys-swapped"
	case x == 5 && len(innerOffs) >= 2:
		i := 1 + r.Intn(len(innerOffs)-1)
		copy(bad[innerOffs[i]-4:innerOffs[i]], bad[innerOffs[i-1]-4:innerOffs[i-1]])
		how = "keys-duplicate"
	case x < 9 && len(innerOffs) >= 1:
		// corrupt an embedded 32-bit stream with the portable mutators
		i := r.Intn(len(innerOffs))
		end := len(wire)
		if i+1 < len(innerOffs) {
			end = innerOffs[i+1] - 4
		}
		inner := wire[innerOffs[i]:end]
		_, _, info, err := specDecode(inner)
		if err == nil {
			mi, h := corruptPortable(r, inner, info)
			bad = append(append(append([]byte(nil), wire[:innerOffs[i]]...), mi...), wire[end:]...)
			how = "inner-" + h
		}
	}
	if how == "" {
		for k := 0; k < 1+r.Intn(6); k++ {
			bad[r.Intn(len(bad))] ^= 1 << uint(r.Intn(8))
		}
		how = "bit-flips"
	}
	c.Step("valid 64-bit stream (%d bytes, %v) corrupted by %s: %s", len(wire), descSet(m), how, hexHead(bad))
	c.Count("mutation64_" + how)
	c.Distinct(sumBytes(bad))
	acc := feed64(c, bad, "64/"+how, false)
	// accepted bitmaps must at least be safe to validate and query
	for _, b := range acc {
		if pv, st := Try(func() {
			if b.Validate() == nil {
				b.GetCardinality()
				b.ToBytes()
				if b.GetCardinality() < 1<<20 {
					b.ToArray()
				}
			}
		}); pv != nil {
			c.Fail("64/"+how+"/accepted-then-panic", "a decoded 64-bit bitmap panics in Validate/GetCardinality/ToBytes/ToArray: %v\n%s", pv, st)
		}
	}
	c.Sample(map[string]any{"unit": "corrupt64", "case_seed": c.CaseSeed, "mutation": how, "bytes": len(bad), "head_hex": hexHead(bad)})
}
