package main

func init() {
	register(&Property{
		ID: "C07", Level: "exploration", Builds: []string{"plain"},
		Rule:        "cases = population histories (40-90 steps, up to 7 live bitmaps with models): create from others via Clone / static And,Or,Xor,AndNot / static Flip / AddOffset64 / FastOr,FastAnd,HeapOr,HeapXor / ParOr,ParAnd,ParHeapOr (lists of 0..5 with duplicates and empties, workers 0..7); toggle copy-on-write on any; mutate any (point, range, flip, RunOptimize, in-place algebra with another live bitmap or itself, AndAny); drop. Decisive oracle: after EVERY step EVERY live bitmap equals its model (decoded from raw containers) and variadic argument slices are unchanged. Structural monitor: hook views joined on container identity and overlapping backing arrays; a chunk reachable from two owners but not flagged shared on both sides is a suspect that is confirmed or refuted by a probing in-place write the next step. 64-bit counterpart in unit pop64. Non-trivial: history with >= 2 live bitmaps and >= 1 mutation after a creation; distinct = hash of the step list.",
		Assumptions: []string{"interval-set model validated by selfcheck", "documented no-copy constructors (Roaring32AsRoaring64, BSI FromBitmaps) are excluded", "pointer identities read through the hook are compared as integers (non-moving Go heap)"},
		Units: []Unit{
			{Name: "population", Quick: 1500, Thorough: 80000, Run: c07Pop},
			{Name: "population64", Quick: 1500, Thorough: 40000, Run: c07Pop64},
		},
	})
}

func c07Pop(c *Ctx) {
	p := newPop(c, PopMode{Interference: true})
	steps := 40 + c.R.Intn(50)
	for i := 0; i < steps; i++ {
		if !p.Step() {
			break
		}
	}
	c.Distinct(p.h)
	c.Sample(map[string]any{"unit": "population", "case_seed": c.CaseSeed, "steps": firstN(c.hist, 14)})
}
