package main

// threshold-cardinality-targets (C09, C14): a result chunk with EXACTLY 4095 / 4096 / 4097 (or 65535 / 65536 /
// 2^k) values is reached through the static and the in-place form of an operation from operands in random storage
// forms (all chunk-kind pairings), and then walked back and forth across the threshold by single removals and
// additions. The content oracle belongs to C01; here the representation is judged: Validate, the independent
// invariant walk, both round trips (C09) and the serialized-size bounds with the chunk at key 0, where the bound has
// no slack (C14). Seeded change C14-r4m1 needs exactly this: an in-place difference of a bitmap chunk and a run chunk
// that leaves 4096 values, followed by one removal.

import (
	"fmt"

	"github.com/RoaringBitmap/roaring/v2"
)

func thresholdTargets(c *Ctx, sizeBound bool) {
	r := c.R
	key := uint64(0)
	if !sizeBound {
		key = genKeys(r, 1)[0]
	}
	ma, mb, op, target := genThresholdPair(r, key<<16)
	fa, fb := ownedForms[r.Intn(len(ownedForms))], ownedForms[r.Intn(len(ownedForms))]
	A, ea := buildForm(r, ma, fa)
	B, eb := buildForm(r, mb, fb)
	if ea != "" || eb != "" {
		c.Fail("build/"+fa+"/"+fb, "%s %s", ea, eb)
		return
	}
	want := modelOp(op, ma, mb)
	c.Step("threshold target=%d op=%s key=%d; A form=%s %v", target, op, key, fa, descSet(ma))
	c.Step("B form=%s %v", fb, descSet(mb))
	if want.Card() == uint64(target) {
		c.Count(fmt.Sprintf("threshold_result_card_%d_%s", target, op))
	}
	va, vb := A.B.VerifView(), B.B.VerifView()
	if len(va.Slots) == 1 && len(vb.Slots) == 1 {
		c.Count("threshold_pairing_" + kindName[va.Slots[0].Kind] + "-" + kindName[vb.Slots[0].Kind])
	}
	c.Distinct(mix(mix(ma.Hash(), mb.Hash()), hashStr(fa+fb+op)))
	judge := func(res *BM, when string) bool {
		if d := checkEq(res.B, res.M); d != "" {
			c.Fail("threshold/"+when+"/content", "%s", d)
			return false
		}
		c.Eval(1)
		if sizeBound {
			return sizeBoundOracle(c, res, when, "result")
		}
		return validityOracle(c, res.B, when, "result")
	}
	for _, formName := range []string{"static", "inplace", "inplace-cow"} {
		var res *roaring.Bitmap
		if c.Guard("threshold/"+op+"/"+formName, func() {
			switch formName {
			case "static":
				res = staticOp(op, A.B, B.B)
			case "inplace":
				res = A.B.Clone()
				inplaceOp(op, res, B.B)
			default:
				if A.ZC {
					res = A.B.Clone()
				} else {
					A.B.SetCopyOnWrite(true)
					res = A.B.Clone()
				}
				inplaceOp(op, res, B.B)
			}
		}) {
			return
		}
		bm := &BM{B: res, M: want.Clone()}
		when := op + "-" + formName
		c.Step("%s form of %s", formName, op)
		if r.Chance(0.3) {
			c.Step("RunOptimize() on the result")
			if c.Guard("threshold/"+op+"/"+formName+"/RunOptimize", func() { res.RunOptimize() }) {
				return
			}
			when += "-RunOptimize"
		}
		if !judge(bm, "after-"+when) {
			return
		}
		// walk across the threshold: removals of present values and additions of absent ones inside the chunk
		for i := 0; i < 7 && !c.Failed(); i++ {
			lo := key << 16
			var x uint64
			remove := r.Chance(0.6)
			if i < 2 {
				remove = target <= 4097 || r.Chance(0.5)
			}
			if remove {
				ivs := bm.M.Intervals()
				if len(ivs) == 0 {
					break
				}
				v := ivs[r.Intn(len(ivs))]
				x = []uint64{v.Lo, v.Hi, r.Range(v.Lo, v.Hi)}[r.Intn(3)]
				c.Step("Remove(%d)", x)
				if r.Chance(0.5) {
					bm.B.Remove(uint32(x))
				} else {
					bm.B.CheckedRemove(uint32(x))
				}
				bm.M.Remove(x)
			} else {
				x = lo | r.Range(0, 65535)
				c.Step("Add(%d)", x)
				if r.Chance(0.5) {
					bm.B.Add(uint32(x))
				} else {
					bm.B.CheckedAdd(uint32(x))
				}
				bm.M.Add(x)
			}
			if !judge(bm, "after-"+when+"-then-point-updates") {
				return
			}
		}
		if !sizeBound && !c.Failed() {
			if !roundTripValidity(c, bm.B, bm.M, "after-"+when+"-then-point-updates") {
				return
			}
		}
	}
	c.Sample(map[string]any{"unit": "threshold-cardinality-targets", "case_seed": c.CaseSeed, "target": target, "op": op, "formA": fa, "formB": fb})
}
