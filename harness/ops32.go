package main

// Mutation steps on a (bitmap, model) pair, shared by several properties.

import (
	"fmt"
	"sort"

	"github.com/RoaringBitmap/roaring/v2"
)

type MutOpts struct {
	COWToggle bool // SetCopyOnWrite / CloneCopyOnWriteContainers steps allowed
	MaxSpan   uint64
	Sig       string // signature prefix for violations raised inside a step
	NoClone   bool
	Light     bool // avoid ranges spanning more than a few chunks
	Huge      bool // allow ranges spanning thousands of chunks / ending at 2^32 from anywhere
	OnlyOps   []string
	MaxVal    uint64 // when non-zero, additions stay at or below this value (removals are not restricted)
}

var mutOpsAll = []string{"Add", "CheckedAdd", "AddInt", "AddMany", "Remove", "CheckedRemove", "AddRange", "RemoveRange", "Flip", "Clear", "RunOptimize", "Clone", "CloneCOWContainers", "SetCOW", "TrimEnds"}
var mutOpsWeights = []int{10, 8, 2, 6, 8, 8, 9, 9, 8, 1, 4, 3, 1, 2, 3}

func pickMutOp(r *Rng, o MutOpts) string {
	if len(o.OnlyOps) > 0 {
		return o.OnlyOps[r.Intn(len(o.OnlyOps))]
	}
	tot := 0
	for _, w := range mutOpsWeights {
		tot += w
	}
	x := r.Intn(tot)
	for i, w := range mutOpsWeights {
		if x < w {
			return mutOpsAll[i]
		}
		x -= w
	}
	return "Add"
}

// genRange returns a half-open [s,e) with 0 <= s < e <= 2^32 (boundary biased).
func genRange(r *Rng, m *ISet, light, huge bool) (uint64, uint64) {
	s := edgeVal32(r, m)
	var e uint64
	switch x := r.Intn(12); {
	case x < 4: // inside one chunk
		e = s + 1 + r.Range(0, 65535-(s&0xFFFF))
	case x < 6: // ends exactly at a chunk edge
		e = (s | 0xFFFF) + 1
	case x < 8: // short
		e = s + 1 + r.Range(0, 70)
	case x < 10: // spans a few chunks
		e = s + 1 + r.Range(0, 5*65536)
	case x == 10:
		if light {
			e = s + 1 + r.Range(0, 3*65536)
		} else if !huge {
			e = s + 1 + r.Range(0, 300*65536)
		} else if r.Chance(0.3) {
			e = 1 << 32
		} else {
			e = s + 1 + r.Range(0, 5000*65536)
		}
	default: // ends at a chunk edge several chunks later
		e = ((s >> 16) + 1 + r.Range(0, 6)) << 16
		if r.Chance(0.3) {
			e += edgeVal16(r) // or at an edge value inside that chunk
		}
	}
	if e > 1<<32 {
		e = 1 << 32
	}
	if e <= s {
		e = s + 1
	}
	if r.Chance(0.03) {
		// whole chunk(s)
		s = s &^ 0xFFFF
	}
	if r.Chance(0.04) {
		// a (cheap) range that ends exactly at 2^32, i.e. inside chunk key 0xFFFF
		e = 1 << 32
		s = e - 1 - r.Range(0, 3*65536)
		if r.Chance(0.3) {
			s = e - 65536*(1+r.Range(0, 2))
		}
	}
	return s, e
}

// emptyRange turns [s,e) into an empty range (s == e, or s > e: "a plain set would do nothing") 3 % of the time;
// both ends stay within the bounds of the non-empty range they were derived from, so no documented-panic argument is formed.
func emptyRange(r *Rng, s, e *uint64) bool {
	if !r.Chance(0.03) {
		return false
	}
	switch r.Intn(4) {
	case 0:
		*e = *s
	case 1:
		*s = *e
	case 2: // inverted, both ends where the non-empty range had them
		*s, *e = *e, *s
	default: // inverted by one
		*s, *e = *e, *e-1
	}
	if *e > *s { // (only when e was 0 and wrapped)
		*e = *s
	}
	return true
}

func genManyValues(r *Rng, m *ISet) []uint32 {
	n := []int{0, 1, 2, 5, 50, 300, 5000}[r.Intn(7)]
	out := make([]uint32, 0, n)
	switch r.Intn(4) {
	case 0: // same chunk
		base := edgeVal32(r, m) &^ 0xFFFF
		for i := 0; i < n; i++ {
			out = append(out, uint32(base|r.Range(0, 65535)))
		}
	case 1: // chunk switching
		bases := []uint64{edgeVal32(r, m) &^ 0xFFFF, edgeVal32(r, m) &^ 0xFFFF, edgeVal32(r, m) &^ 0xFFFF}
		for i := 0; i < n; i++ {
			out = append(out, uint32(bases[r.Intn(3)]|edgeVal16(r)))
		}
	case 2: // consecutive run crossing a chunk edge
		s := edgeVal32(r, m)
		for i := 0; i < n && s+uint64(i) <= max32; i++ {
			out = append(out, uint32(s+uint64(i)))
		}
	default:
		for i := 0; i < n; i++ {
			out = append(out, uint32(edgeVal32(r, m)))
		}
	}
	if r.Chance(0.4) {
		sort.Slice(out, func(i, j int) bool { return out[i] < out[j] })
	}
	return out
}

// mutateStep applies one random mutation to bm (library and model) and checks the
// return values that the step itself exposes. It returns the op name.
func mutateStep(c *Ctx, bm *BM, o MutOpts) string {
	r := c.R
	op := pickMutOp(r, o)
	if (op == "SetCOW" || op == "CloneCOWContainers") && !o.COWToggle {
		op = "RunOptimize"
	}
	if op == "SetCOW" && bm.ZC {
		op = "CloneCOWContainers"
	}
	if op == "Clone" && o.NoClone {
		op = "Add"
	}
	sig := o.Sig + op
	b, m := bm.B, bm.M
	capv := func(x uint64) uint64 {
		if o.MaxVal > 0 && x > o.MaxVal {
			return x % (o.MaxVal + 1)
		}
		return x
	}
	switch op {
	case "Add", "AddInt":
		x := capv(edgeVal32(r, m))
		c.Step("%s(%d)", op, x)
		c.Guard(sig, func() {
			if op == "Add" {
				b.Add(uint32(x))
			} else if x <= 1<<31-1 || r.Chance(0.5) {
				b.AddInt(int(x))
			} else {
				b.Add(uint32(x))
			}
		})
		m.Add(x)
	case "CheckedAdd":
		x := capv(edgeVal32(r, m))
		c.Step("CheckedAdd(%d)", x)
		want := !m.Contains(x)
		c.Guard(sig, func() {
			if got := b.CheckedAdd(uint32(x)); got != want {
				c.Fail(sig+"/return", "CheckedAdd(%d) returned %v, membership changed=%v", x, got, want)
			}
		})
		m.Add(x)
		c.Eval(1)
	case "Remove":
		x := edgeVal32(r, m)
		c.Step("Remove(%d)", x)
		c.Guard(sig, func() { b.Remove(uint32(x)) })
		m.Remove(x)
	case "CheckedRemove":
		x := edgeVal32(r, m)
		c.Step("CheckedRemove(%d)", x)
		want := m.Contains(x)
		c.Guard(sig, func() {
			if got := b.CheckedRemove(uint32(x)); got != want {
				c.Fail(sig+"/return", "CheckedRemove(%d) returned %v, membership changed=%v", x, got, want)
			}
		})
		m.Remove(x)
		c.Eval(1)
	case "AddMany":
		vals := genManyValues(r, m)
		for i := range vals {
			vals[i] = uint32(capv(uint64(vals[i])))
		}
		if len(vals) <= 64 {
			c.Step("AddMany(%v)", vals)
		} else {
			c.Step("AddMany(n=%d first=%v)", len(vals), vals[:8])
		}
		c.Guard(sig, func() { b.AddMany(vals) })
		for _, v := range vals {
			m.Add(uint64(v))
		}
	case "AddRange":
		s, e := genRange(r, m, o.Light, o.Huge)
		if o.MaxVal > 0 && e > o.MaxVal+1 {
			e = o.MaxVal + 1
			if s >= e {
				s = e - 1 - r.Range(0, minU(e-1, 70000))
			}
		}
		empty := emptyRange(r, &s, &e)
		c.Step("AddRange(%d,%d)", s, e)
		c.Guard(sig, func() { b.AddRange(s, e) })
		if !empty {
			m.AddRange(s, e-1)
		}
	case "RemoveRange":
		s, e := genRange(r, m, o.Light, o.Huge)
		if r.Chance(0.05) {
			e = 1<<32 + r.Range(0, 1<<33) // documented clamp
		}
		empty := emptyRange(r, &s, &e)
		c.Step("RemoveRange(%d,%d)", s, e)
		c.Guard(sig, func() { b.RemoveRange(s, e) })
		if e > 1<<32 {
			e = 1 << 32
		}
		if !empty {
			m.RemoveRange(s, e-1)
		}
	case "Flip":
		s, e := genRange(r, m, true, false)
		if !o.Light && r.Chance(0.02) {
			s, e = genRange(r, m, false, false)
			if e-s > 200*65536 {
				e = s + 200*65536
			}
		}
		if o.MaxVal > 0 && e > o.MaxVal+1 {
			e = o.MaxVal + 1
			if s >= e {
				s = e - 1 - r.Range(0, minU(e-1, 70000))
			}
		}
		empty := emptyRange(r, &s, &e)
		c.Step("Flip(%d,%d)", s, e)
		c.Guard(sig, func() {
			if e <= 1<<31-1 && s <= 1<<31-1 && r.Chance(0.2) {
				b.FlipInt(int(s), int(e))
			} else {
				b.Flip(s, e)
			}
		})
		if !empty {
			m.FlipRange(s, e-1)
		}
	case "TrimEnds":
		// a burst of removals of the current maximum (or minimum) of the bitmap or of one chunk: "pop from the end",
		// which keeps hitting the last (first) run / the tail of one container without any other operation in between
		n := 2 + r.Intn(9)
		if r.Chance(0.25) {
			n = 10 + r.Intn(70) // long enough to eat most of a long last run
		}
		fromTop := r.Chance(0.6)
		var lo, hi uint64 = 0, max32
		if ivs := m.Intervals(); len(ivs) > 0 && r.Chance(0.5) {
			k := ivs[r.Intn(len(ivs))].Lo >> 16
			lo, hi = k<<16, k<<16|0xFFFF
		}
		c.Step("TrimEnds: %d removals of the current %s of [%d,%d]", n, map[bool]string{true: "maximum", false: "minimum"}[fromTop], lo, hi)
		c.Guard(sig, func() {
			for i := 0; i < n; i++ {
				sub := m.Restrict(lo, hi)
				var x uint64
				var ok bool
				if fromTop {
					x, ok = sub.Max()
				} else {
					x, ok = sub.Min()
				}
				if !ok {
					return
				}
				// boundary-biased stop: the run being eaten has two values left (one more removal makes it a single value)
				if ivs := sub.Intervals(); i > 0 && len(ivs) > 0 {
					e := ivs[len(ivs)-1]
					if !fromTop {
						e = ivs[0]
					}
					if e.Hi-e.Lo == 1 && r.Chance(0.5) {
						return
					}
				}
				want := true
				if i%2 == 0 {
					b.Remove(uint32(x))
				} else if got := b.CheckedRemove(uint32(x)); got != want {
					c.Fail(sig+"/return", "CheckedRemove(%d) returned %v for a present value", x, got)
				}
				m.Remove(x)
			}
		})
	case "Clear":
		c.Step("Clear()")
		c.Guard(sig, func() { b.Clear() })
		m.Clear()
	case "RunOptimize":
		c.Step("RunOptimize()")
		c.Guard(sig, func() { b.RunOptimize() })
	case "Clone":
		// continue on the clone; the original stays alive in Keep and is checked by the caller via bm.Prev
		c.Step("Clone() and continue on the clone")
		c.Guard(sig, func() {
			cl := b.Clone()
			bm.Keep = append(bm.Keep, &BM{B: b, M: m.Clone(), ZC: bm.ZC})
			bm.B = cl
		})
	case "CloneCOWContainers":
		c.Step("CloneCopyOnWriteContainers()")
		c.Guard(sig, func() { b.CloneCopyOnWriteContainers() })
	case "SetCOW":
		v := r.Chance(0.6)
		c.Step("SetCopyOnWrite(%v)", v)
		c.Guard(sig, func() { b.SetCopyOnWrite(v) })
	}
	c.Count("op_" + op)
	return op
}

// prevClones returns the earlier incarnations kept alive by Clone steps.
func (bm *BM) prevClones() []*BM {
	var out []*BM
	for _, k := range bm.Keep {
		if p, ok := k.(*BM); ok {
			out = append(out, p)
		}
	}
	return out
}

// thresholdEvents records crossings of representation thresholds between two views.
func thresholdEvents(c *Ctx, before, after roaring.VerifView) {
	bk := map[uint16]roaring.VerifSlot{}
	for _, s := range before.Slots {
		bk[s.Key] = s
	}
	for _, s := range after.Slots {
		if p, ok := bk[s.Key]; ok && p.Kind != s.Kind {
			c.Count(fmt.Sprintf("retype_%s_to_%s", kindName[p.Kind], kindName[s.Kind]))
		}
	}
}

// algebraStep applies one in-place set operation to bm with an operand that is a relative of bm's current content
// (some whole chunks of it, parts of others, a few values elsewhere): whole chunks vanish or survive untouched,
// the operand runs out before / after the receiver, chunks slide to other slots. Returns the operation name.
func algebraStep(c *Ctx, bm *BM, sigPrefix string) string {
	r := c.R
	op := binOps[r.Intn(4)]
	om := NewISet()
	seen := map[uint64]bool{}
	for _, v := range splitAtChunks(bm.M.Intervals()) {
		k := v.Lo >> 16
		if seen[k] || len(seen) > 300 {
			continue
		}
		seen[k] = true
		switch x := r.Intn(10); {
		case x < 4: // the whole chunk
			for _, w := range bm.M.Restrict(k<<16, k<<16|0xFFFF).Intervals() {
				om.AddRange(w.Lo, w.Hi)
			}
		case x < 6: // a superset / an overlapping range
			om.AddRange(v.Lo, minU(v.Hi+r.Range(0, 50), k<<16|0xFFFF))
		case x < 7:
			om.Add(k<<16 | edgeVal16(r))
		}
	}
	if r.Chance(0.5) {
		om.Add(edgeVal32(r, bm.M))
	}
	if r.Chance(0.3) {
		// cut the operand off behind a random point so that it ends before the receiver does
		if mx, ok := om.Max(); ok {
			om.RemoveRange(r.Range(0, mx), max32)
		}
	}
	f := formsNoZC[r.Intn(len(formsNoZC))]
	ob, es := buildForm(r, om, f)
	if es != "" {
		c.Fail("build/"+f, "%s", es)
		return op
	}
	c.Step("%s in place with a relative of the current content (form %s) %v", op, f, descSet(om))
	want := modelOp(op, bm.M, om)
	c.Guard(sigPrefix+"I"+op, func() { inplaceOp(op, bm.B, ob.B) })
	bm.M = want
	if d := checkEq(ob.B, om); d != "" && !c.Failed() {
		c.Fail(sigPrefix+"I"+op+"/argument-changed", "the argument of the in-place %s changed: %s", op, d)
	}
	c.Count("op_I" + op)
	return "I" + op
}
