package main

// Glue between the model and the 32-bit library bitmap: state extraction through
// the hook view (independent of the library's query code), the independent
// invariant walk, construction of a bitmap in a requested storage form.

import (
	"bytes"
	"fmt"
	"math/bits"

	"github.com/RoaringBitmap/roaring/v2"
)

// BM couples a library bitmap with its model.
type BM struct {
	B    *roaring.Bitmap
	M    *ISet
	Form string
	Keep []any // caller-owned buffers that must stay reachable (zero-copy forms)
	ZC   bool  // derived from a zero-copy decode: SetCopyOnWrite must not be called
	Reg  *GuardRegion
}

var kindName = [...]string{"array", "bitmap", "run", "other"}

// viewSet decodes the stored content of b from raw container data.
// problems lists violations of the representation invariants (C09's independent walk).
func viewSet(b *roaring.Bitmap) (set *ISet, problems []string, kinds []roaring.VerifKind) {
	v := b.VerifView()
	if v.NKeys != v.NContainers || v.NKeys != v.NFlags {
		problems = append(problems, fmt.Sprintf("parallel-slices-unequal keys=%d containers=%d flags=%d", v.NKeys, v.NContainers, v.NFlags))
	}
	var ivs []IV
	prevKey := -1
	for i, s := range v.Slots {
		kinds = append(kinds, s.Kind)
		if int(s.Key) <= prevKey {
			problems = append(problems, fmt.Sprintf("keys-not-increasing at slot %d key=%d prev=%d", i, s.Key, prevKey))
		}
		prevKey = int(s.Key)
		base := uint64(s.Key) << 16
		n0 := len(ivs)
		switch s.Kind {
		case roaring.VerifArray:
			vals := b.VerifSlotArray(i)
			if len(vals) == 0 {
				problems = append(problems, fmt.Sprintf("empty-chunk kind=array key=%d", s.Key))
			}
			if len(vals) > 4096 {
				problems = append(problems, fmt.Sprintf("array-chunk-oversized key=%d n=%d", s.Key, len(vals)))
			}
			for k, x := range vals {
				if k > 0 && vals[k-1] >= x {
					problems = append(problems, fmt.Sprintf("array-chunk-unsorted key=%d at %d", s.Key, k))
					break
				}
			}
			for _, x := range vals {
				u := base | uint64(x)
				if n := len(ivs); n > n0 && ivs[n-1].Hi+1 == u {
					ivs[n-1].Hi = u
				} else {
					ivs = append(ivs, IV{u, u})
				}
			}
		case roaring.VerifBitmap:
			words := b.VerifSlotWords(i)
			if len(words) != 1024 {
				problems = append(problems, fmt.Sprintf("bitmap-chunk-words key=%d len=%d", s.Key, len(words)))
			}
			pc := 0
			for w, word := range words {
				pc += bits.OnesCount64(word)
				for word != 0 {
					t := bits.TrailingZeros64(word)
					// length of the run of ones starting at t
					run := bits.TrailingZeros64(^(word >> uint(t)))
					lo := base | uint64(w*64+t)
					hi := lo + uint64(run) - 1
					if n := len(ivs); n > n0 && ivs[n-1].Hi+1 == lo {
						ivs[n-1].Hi = hi
					} else {
						ivs = append(ivs, IV{lo, hi})
					}
					if t+run >= 64 {
						word = 0
					} else {
						word &^= (uint64(1)<<uint(t+run) - 1)
					}
				}
			}
			if s.CachedCard != pc {
				problems = append(problems, fmt.Sprintf("bitmap-chunk-cached-cardinality key=%d cached=%d popcount=%d", s.Key, s.CachedCard, pc))
			}
			if pc == 0 {
				problems = append(problems, fmt.Sprintf("empty-chunk kind=bitmap key=%d", s.Key))
			} else if pc <= 4096 {
				problems = append(problems, fmt.Sprintf("bitmap-chunk-undersized key=%d card=%d", s.Key, pc))
			}
		case roaring.VerifRun:
			runs := b.VerifSlotRuns(i)
			if len(runs) == 0 {
				problems = append(problems, fmt.Sprintf("empty-chunk kind=run key=%d", s.Key))
			}
			prevEnd := -2
			for k, rr := range runs {
				st, ln := int(rr[0]), int(rr[1])
				if st+ln > 65535 {
					problems = append(problems, fmt.Sprintf("run-chunk-beyond-65535 key=%d run=%d", s.Key, k))
					ln = 65535 - st
				}
				if st <= prevEnd {
					problems = append(problems, fmt.Sprintf("run-chunk-unsorted-or-overlapping key=%d run=%d", s.Key, k))
				} else if st == prevEnd+1 {
					problems = append(problems, fmt.Sprintf("run-chunk-adjacent key=%d run=%d", s.Key, k))
				}
				prevEnd = st + ln
				ivs = append(ivs, IV{base | uint64(st), base | uint64(st+ln)})
			}
		default:
			problems = append(problems, fmt.Sprintf("unknown-container-kind key=%d", s.Key))
		}
	}
	return ivsToSet(ivs), problems, kinds
}

// runEfficiency: Validate() additionally demands that a run chunk be the smallest representation.
func runInefficient(b *roaring.Bitmap) []string {
	var out []string
	v := b.VerifView()
	for _, s := range v.Slots {
		if s.Kind == roaring.VerifRun {
			sizeRun := 2 + 4*s.NRuns
			// the rule Validate applies: a run chunk must be strictly smaller than both alternatives
			if sizeRun >= minI(2*s.Card, 8224) {
				out = append(out, fmt.Sprintf("run-chunk-inefficient key=%d runs=%d card=%d", s.Key, s.NRuns, s.Card))
			}
		}
	}
	return out
}

func problemClass(p string) string {
	for i := 0; i < len(p); i++ {
		if p[i] == ' ' {
			return p[:i]
		}
	}
	return p
}

// apiSet reads the content through the public API (ToArray) for moderate cardinalities.
func apiSet(b *roaring.Bitmap) *ISet {
	arr := b.ToArray()
	var ivs []IV
	for _, x := range arr {
		u := uint64(x)
		if n := len(ivs); n > 0 && ivs[n-1].Hi+1 == u {
			ivs[n-1].Hi = u
		} else {
			ivs = append(ivs, IV{u, u})
		}
	}
	return ivsToSet(ivs)
}

// checkEq compares b with model m through the hook view (and the API when small).
// Returns "" when equal, else a description.
func checkEq(b *roaring.Bitmap, m *ISet) string {
	vs, _, _ := viewSet(b)
	if !vs.Equal(m) {
		d, _ := vs.FirstDiff(m)
		return fmt.Sprintf("stored content differs from the model: first differing value %d (key %d low %d): model has it=%v; stored=%s model=%s", d, d>>16, d&0xFFFF, m.Contains(d), vs, m)
	}
	if c := m.Card(); c <= 1<<17 {
		as := apiSet(b)
		if !as.Equal(m) {
			d, _ := as.FirstDiff(m)
			return fmt.Sprintf("ToArray differs from the model (stored content is right): first differing value %d; toarray=%s model=%s", d, as, m)
		}
	}
	if gc := b.GetCardinality(); gc != m.Card() {
		return fmt.Sprintf("GetCardinality=%d but the model holds %d", gc, m.Card())
	}
	return ""
}

// storageHash hashes the raw representation (kinds, flags excluded, raw data included).
func storageHash(b *roaring.Bitmap) uint64 {
	v := b.VerifView()
	h := uint64(1469598103934665603)
	mixin := func(x uint64) { h = hstep(h, x) }
	for i, s := range v.Slots {
		mixin(uint64(s.Key))
		mixin(uint64(s.Kind))
		switch s.Kind {
		case roaring.VerifArray:
			for _, x := range b.VerifSlotArray(i) {
				mixin(uint64(x))
			}
		case roaring.VerifBitmap:
			for _, x := range b.VerifSlotWords(i) {
				mixin(x)
			}
		case roaring.VerifRun:
			for _, x := range b.VerifSlotRuns(i) {
				mixin(uint64(x[0])<<16 | uint64(x[1]))
			}
		}
	}
	return h
}

// kindVectorHash identifies a representation state.
func kindVectorHash(b *roaring.Bitmap) uint64 {
	v := b.VerifView()
	h := uint64(14695981039346656037)
	for _, s := range v.Slots {
		x := uint64(s.Kind)
		if s.Shared {
			x |= 8
		}
		// bucket cardinality classes around the thresholds
		switch {
		case s.Card == 65536:
			x |= 16
		case s.Card > 4096:
			x |= 32
		case s.Card == 4096:
			x |= 48
		}
		h = hstep(h, x)
	}
	return h
}

func countKinds(c *Ctx, prefix string, b *roaring.Bitmap) {
	v := b.VerifView()
	for _, s := range v.Slots {
		c.Count(prefix + kindName[s.Kind])
	}
}

// ---------------------------------------------------------------- storage forms

var ownedForms = []string{"add", "addmany", "range", "opt", "mixed", "cowclone", "stream", "frombuffer", "fromunsafe", "frozen", "dense", "aggregate3"}

// formsNoZC excludes forms that alias a caller buffer.
var formsNoZC = []string{"add", "addmany", "range", "opt", "mixed", "cowclone", "stream", "aggregate3"}

// buildForm constructs a library bitmap holding exactly m in the given storage form.
// It returns an error string when the construction itself misbehaves.
func buildForm(r *Rng, m *ISet, form string) (*BM, string) {
	if form == "frozen" && curVariant == "checkptr" {
		// the library's own frozen arena trips checkptr on legal input (see DESIGN.md 2.3)
		form = "frombuffer"
	}
	bm := &BM{M: m.Clone(), Form: form}
	b := roaring.New()
	card := m.Card()
	addPoints := func(dst *roaring.Bitmap, ivs []IV) {
		for _, v := range ivs {
			if v.Hi-v.Lo > 20000 {
				dst.AddRange(v.Lo, v.Hi+1)
				continue
			}
			for x := v.Lo; x <= v.Hi; x++ {
				dst.Add(uint32(x))
			}
		}
	}
	addMany := func(dst *roaring.Bitmap, ivs []IV) {
		var buf []uint32
		for _, v := range ivs {
			if v.Hi-v.Lo > 200000 {
				dst.AddRange(v.Lo, v.Hi+1)
				continue
			}
			for x := v.Lo; x <= v.Hi; x++ {
				buf = append(buf, uint32(x))
			}
		}
		dst.AddMany(buf)
	}
	addRanges := func(dst *roaring.Bitmap, ivs []IV) {
		for _, v := range ivs {
			dst.AddRange(v.Lo, v.Hi+1)
		}
	}
	_ = card
	switch form {
	case "add":
		addPoints(b, m.iv)
	case "addmany":
		addMany(b, m.iv)
	case "range":
		addRanges(b, m.iv)
	case "opt":
		addMany(b, m.iv)
		b.RunOptimize()
	case "mixed":
		// chunks split in two groups built differently, then united (disjoint keys)
		var g1, g2 []IV
		for _, v := range splitAtChunks(m.iv) {
			if mix(v.Lo>>16, 77)%2 == 0 {
				g1 = append(g1, v)
			} else {
				g2 = append(g2, v)
			}
		}
		b1 := roaring.New()
		addMany(b1, g1)
		b2 := roaring.New()
		addRanges(b2, g2)
		b2.RunOptimize()
		b = roaring.Or(b1, b2)
	case "aggregate3":
		// the union of three overlapping parts, computed by one of the many-way aggregates
		// (lazy kernels + repair step): a bitmap "produced by an operation" rather than built directly
		parts := [3]*roaring.Bitmap{roaring.New(), roaring.New(), roaring.New()}
		for _, v := range splitAtChunks(m.iv) {
			// cut every piece at one or two random points and deal the pieces out, with overlaps
			lo := v.Lo
			for lo <= v.Hi {
				hi := v.Hi
				if hi > lo && r.Chance(0.5) {
					hi = r.Range(lo, v.Hi)
				}
				if hi > lo+3 && r.Chance(0.25) {
					hi = lo + r.Range(0, 2) // a tiny piece (1-3 values) right before the rest of the interval
				}
				k := r.Intn(3)
				if hi-lo > 64 || (hi > lo && r.Chance(0.5)) {
					parts[k].AddRange(lo, hi+1)
				} else {
					for x := lo; x <= hi; x++ {
						parts[k].Add(uint32(x))
					}
				}
				if r.Chance(0.3) {
					parts[(k+1)%3].AddRange(lo, hi+1)
				}
				lo = hi + 1
			}
		}
		if r.Chance(0.5) {
			parts[r.Intn(3)].RunOptimize()
		}
		switch r.Intn(6) {
		case 4:
			// in-place unions in a random order (touching pieces of one interval meet as receiver / argument)
			// (the receiver is the part itself, not a clone: its tables keep the spare capacity left by appends)
			o := r.Perm(3)
			b = parts[o[0]]
			b.Or(parts[o[1]])
			b.Or(parts[o[2]])
		case 5:
			o := r.Perm(3)
			b = roaring.Or(roaring.Or(parts[o[0]], parts[o[1]]), parts[o[2]])
		case 0:
			b = roaring.FastOr(parts[0], parts[1], parts[2])
		case 1:
			b = roaring.ParOr(1+r.Intn(3), parts[0], parts[1], parts[2])
		case 2:
			b = roaring.HeapOr(parts[0], parts[1], parts[2])
		default:
			b = roaring.ParHeapOr(1+r.Intn(3), parts[0], parts[1], parts[2])
		}
	case "cowclone":
		src := roaring.New()
		addMany(src, m.iv)
		if r.Chance(0.5) {
			src.RunOptimize()
		}
		src.SetCopyOnWrite(true)
		b = src.Clone()
		bm.Keep = append(bm.Keep, src) // the original stays alive (and is never mutated)
	case "stream", "frombuffer", "fromunsafe", "frozen":
		src := roaring.New()
		addMany(src, m.iv)
		if r.Chance(0.6) {
			src.RunOptimize()
		}
		if form == "frozen" {
			buf, err := src.Freeze()
			if err != nil {
				return nil, "Freeze failed: " + err.Error()
			}
			if err := b.FrozenView(buf); err != nil {
				return nil, "FrozenView of Freeze output failed: " + err.Error()
			}
			bm.Keep = append(bm.Keep, buf)
			bm.ZC = true
		} else {
			buf, err := src.ToBytes()
			if err != nil {
				return nil, "ToBytes failed: " + err.Error()
			}
			switch form {
			case "stream":
				if _, err := b.ReadFrom(bytes.NewReader(buf)); err != nil {
					return nil, "ReadFrom of ToBytes output failed: " + err.Error()
				}
			case "frombuffer":
				if _, err := b.FromBuffer(buf); err != nil {
					return nil, "FromBuffer of ToBytes output failed: " + err.Error()
				}
				bm.Keep = append(bm.Keep, buf)
				bm.ZC = true
			case "fromunsafe":
				if _, err := b.FromUnsafeBytes(buf); err != nil {
					return nil, "FromUnsafeBytes of ToBytes output failed: " + err.Error()
				}
				bm.Keep = append(bm.Keep, buf)
				bm.ZC = true
			}
		}
	case "dense":
		mx, ok := m.Max()
		if !ok || mx > 1<<24 {
			// dense form is only practical for small universes; fall back
			addMany(b, m.iv)
			bm.Form = "addmany"
			break
		}
		words := make([]uint64, mx/64+1)
		m.ForEach(func(x uint64) bool { words[x/64] |= 1 << (x % 64); return true })
		doCopy := r.Chance(0.5)
		b = roaring.FromDense(words, doCopy)
		if !doCopy {
			bm.Keep = append(bm.Keep, words)
			bm.ZC = true
		}
	default:
		panic("unknown form " + form)
	}
	bm.B = b
	if d := checkEq(b, m); d != "" {
		return nil, "construction in form " + form + ": " + d
	}
	return bm, ""
}

func splitAtChunks(ivs []IV) []IV {
	var out []IV
	for _, v := range ivs {
		lo := v.Lo
		for (lo >> 16) != (v.Hi >> 16) {
			e := lo | 0xFFFF
			out = append(out, IV{lo, e})
			lo = e + 1
		}
		out = append(out, IV{lo, v.Hi})
	}
	return out
}

func pickForm(r *Rng, m *ISet, allowZC bool) string {
	fs := formsNoZC
	if allowZC {
		fs = ownedForms
	}
	return fs[r.Intn(len(fs))]
}

// genBM generates a model and a bitmap in a random storage form.
func genBM(c *Ctx, o GenOpts, allowZC bool) *BM {
	m, _ := genSet(c.R, o)
	form := pickForm(c.R, m, allowZC)
	bm, errs := buildForm(c.R, m, form)
	if errs != "" {
		c.Step("build form=%s set=%v", form, m.Full())
		c.Fail("build/"+form, "%s", errs)
		// fall back to the simplest form so that the case can go on
		bm, errs = buildForm(c.R, m, "addmany")
		if errs != "" {
			return &BM{B: roaring.New(), M: NewISet(), Form: "empty"}
		}
	}
	return bm
}

func descSet(m *ISet) any {
	if m.NumIntervals() <= 24 {
		return m.Full()
	}
	return map[string]any{"card": m.Card(), "intervals": m.NumIntervals(), "first": m.Full()[:8], "hash": m.Hash()}
}
