package main

func c07Pop64(c *Ctx) { pop64Run(c) }
