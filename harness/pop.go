package main

// Population machine: several live bitmaps with models; steps create bitmaps from
// others, mutate any of them, run aggregates. Oracles are selected by the calling
// property (C07 interference + alias monitor, C09 validity, C14 size bound).

import (
	"bytes"
	"fmt"

	"github.com/RoaringBitmap/roaring/v2"
)

type PopMode struct {
	Interference bool // every live bitmap == its model after every step; alias monitor (C07)
	Validity     bool // Validate + invariant walk (+ round trips) (C09)
	SizeBound    bool // serialized-size bounds (C14)
	RunBias      bool // prefer histories that fragment runs
	MaxLive      int
}

type Pop struct {
	c            *Ctx
	mode         PopMode
	live         []*BM
	names        []int
	nextName     int
	lastOp       string
	h            uint64
	pendingProbe *aliasSuspect
	// lowKeys: every bitmap of the case lives in chunks 0..3, so that the size bounds (which allow 9 bytes per
	// POSSIBLE chunk below the maximum) have almost no slack
	lowKeys bool
}

type aliasSuspect struct {
	owner, other int // indexes in live
	key          uint16
	createdBy    string
}

func newPop(c *Ctx, mode PopMode) *Pop {
	if mode.MaxLive == 0 {
		mode.MaxLive = 7
	}
	return &Pop{c: c, mode: mode, lowKeys: mode.SizeBound && c.R.Chance(0.7)}
}

func (p *Pop) add(bm *BM) int {
	p.live = append(p.live, bm)
	p.names = append(p.names, p.nextName)
	p.nextName++
	return len(p.live) - 1
}

func (p *Pop) name(i int) string { return fmt.Sprintf("b%d", p.names[i]) }

func (p *Pop) pick() int { return p.c.R.Intn(len(p.live)) }

func (p *Pop) pickList(maxn int) []int {
	r := p.c.R
	n := r.Intn(maxn + 1)
	if r.Chance(0.15) {
		n = 1
	}
	out := make([]int, n)
	for i := range out {
		out[i] = p.pick()
	}
	return out
}

func (p *Pop) listNames(ix []int) string {
	s := "["
	for k, i := range ix {
		if k > 0 {
			s += ","
		}
		s += p.name(i)
	}
	return s + "]"
}

func (p *Pop) genFresh() *BM {
	r := p.c.R
	o := GenOpts{MaxChunks: 4, HeavyP: 0.35, Keys: nil}
	if r.Chance(0.6) {
		// a shared small key universe makes chunk collisions between bitmaps likely
		o.Keys = []uint64{0, 1, 2, 3, 0xFFFE, 0xFFFF}
	}
	if p.lowKeys {
		o.Keys = []uint64{0, 1, 2, 3}
	}
	if p.mode.RunBias && r.Chance(0.6) {
		m := NewISet()
		ks := genKeys(r, 1+r.Intn(3))
		if p.lowKeys {
			ks = []uint64{0, 1, 2, 3}[:1+r.Intn(3)]
		}
		for _, k := range ks {
			a := []string{"oneRun", "fewRuns", "manyShortRuns", "runsTouchEdges", "full", "fullMinusFew", "denseLow", "arr4096runs"}[r.Intn(8)]
			for _, v := range genChunk(r, a) {
				m.AddRange(k<<16|v.Lo, k<<16|v.Hi)
			}
		}
		bm, es := buildForm(r, m, []string{"range", "opt", "mixed"}[r.Intn(3)])
		if es == "" {
			return bm
		}
	}
	m, _ := genSet(r, o)
	bm, es := buildForm(r, m, formsNoZC[r.Intn(len(formsNoZC))])
	if es != "" {
		p.c.Fail("build", "%s", es)
		return &BM{B: roaring.New(), M: NewISet()}
	}
	return bm
}

var popCreateOps = []string{"Derive", "Derive", "Fresh", "Clone", "And", "Or", "Xor", "AndNot", "Flip", "AddOffset", "FastOr", "FastAnd", "HeapOr", "HeapXor", "ParOr", "ParAnd", "ParHeapOr"}
var popMutateOps = []string{"Mutate", "Mutate", "Mutate", "Mutate", "IAnd", "IOr", "IXor", "IAndNot", "AndAny", "Drop", "SetCOW"}

// Step performs one random step. It returns false when the case must stop.
func (p *Pop) Step() bool {
	c := p.c
	r := c.R
	if len(p.live) == 0 {
		i := p.add(p.genFresh())
		c.Step("%s = fresh %s %v", p.name(i), p.live[i].Form, descSet(p.live[i].M))
		p.lastOp = "Fresh"
		return p.after()
	}
	if p.pendingProbe != nil {
		s := p.pendingProbe
		p.pendingProbe = nil
		if s.owner < len(p.live) && s.other < len(p.live) {
			p.probe(s)
			return p.after()
		}
	}
	create := len(p.live) < 2 || (len(p.live) < p.mode.MaxLive && r.Chance(0.45))
	if create {
		op := popCreateOps[r.Intn(len(popCreateOps))]
		p.lastOp = op
		p.create(op)
	} else {
		op := popMutateOps[r.Intn(len(popMutateOps))]
		p.lastOp = op
		p.mutate(op)
	}
	if c.Failed() {
		return false
	}
	return p.after()
}

func (p *Pop) create(op string) {
	c := p.c
	r := c.R
	sig := "create/" + op
	var res *roaring.Bitmap
	var want *ISet
	switch op {
	case "Fresh":
		i := p.add(p.genFresh())
		c.Step("%s = fresh %s %v", p.name(i), p.live[i].Form, descSet(p.live[i].M))
		if r.Chance(0.3) && !p.live[i].ZC {
			c.Step("%s.SetCopyOnWrite(true)", p.name(i))
			p.live[i].B.SetCopyOnWrite(true)
		}
		return
	case "Derive":
		// a relative of an existing bitmap: a clone that loses some WHOLE chunks and gains values in neighbouring /
		// other chunks, so that later operations between the two meet identical chunks, chunks present on one side
		// only (in front of, between and behind the common ones) and chunks that become empty as a whole
		a := p.pick()
		want = p.live[a].M.Clone()
		var drop, gain []uint64
		seenK := map[uint64]bool{}
		for _, v := range splitAtChunks(p.live[a].M.Intervals()) {
			k := v.Lo >> 16
			if seenK[k] || len(seenK) > 400 {
				continue
			}
			seenK[k] = true
			if r.Chance(0.4) {
				drop = append(drop, k)
			}
			if r.Chance(0.3) && k < 0xFFFF {
				gain = append(gain, k+1)
			}
			if r.Chance(0.15) && k > 0 {
				gain = append(gain, k-1)
			}
		}
		if r.Chance(0.5) {
			gain = append(gain, edgeVal32(r, want)>>16)
		}
		if len(drop) > 12 {
			c.Step("b%d = Clone(%s) minus %d whole chunks plus values in %d chunks", p.nextName, p.name(a), len(drop), len(gain))
		} else {
			c.Step("b%d = Clone(%s) minus whole chunks %v plus values in chunks %v", p.nextName, p.name(a), drop, gain)
		}
		c.Guard(sig, func() {
			res = p.live[a].B.Clone()
			if p.live[a].B.GetCopyOnWrite() && r.Chance(0.5) {
				res.SetCopyOnWrite(true)
			}
			for _, k := range drop {
				res.RemoveRange(k<<16, (k+1)<<16)
				want.RemoveRange(k<<16, k<<16|0xFFFF)
			}
			for _, k := range gain {
				for j := 0; j < 1+r.Intn(3); j++ {
					v := k<<16 | edgeVal16(r)
					res.Add(uint32(v))
					want.Add(v)
				}
			}
		})
	case "Clone":
		a := p.pick()
		if !p.live[a].ZC && !p.live[a].B.GetCopyOnWrite() && r.Chance(0.4) {
			c.Step("%s.SetCopyOnWrite(true)", p.name(a))
			c.Guard(sig, func() { p.live[a].B.SetCopyOnWrite(true) })
		}
		c.Step("b%d = Clone(%s)", p.nextName, p.name(a))
		c.Guard(sig, func() { res = p.live[a].B.Clone() })
		want = p.live[a].M.Clone()
		if res != nil && !c.Failed() && r.Chance(0.5) && !want.IsEmpty() {
			// right after the clone one side writes into one chunk (the first one, or any): from here on the family has
			// MIXED per-chunk sharing flags, the state in which flag bookkeeping slips become visible
			ivs := want.Intervals()
			v := ivs[0]
			if r.Chance(0.4) {
				v = ivs[r.Intn(len(ivs))]
			}
			y := (v.Lo &^ 0xFFFF) | edgeVal16(r)
			if r.Chance(0.5) {
				c.Step("the new clone: Add(%d)", y)
				c.Guard(sig, func() { res.Add(uint32(y)) })
				want.Add(y)
			} else {
				c.Step("%s.Add(%d)", p.name(a), y)
				c.Guard(sig, func() { p.live[a].B.Add(uint32(y)) })
				p.live[a].M.Add(y)
			}
			c.Count("clone_then_private_write")
		}
	case "And", "Or", "Xor", "AndNot":
		a, b := p.pick(), p.pick()
		c.Step("b%d = %s(%s,%s)", p.nextName, op, p.name(a), p.name(b))
		c.Guard(sig, func() { res = staticOp(op, p.live[a].B, p.live[b].B) })
		want = modelOp(op, p.live[a].M, p.live[b].M)
	case "Flip":
		a := p.pick()
		s, e := genRange(r, p.live[a].M, true, false)
		if p.lowKeys && e > 4<<16 {
			e = 4 << 16
			if s >= e {
				s = e - 1 - r.Range(0, 70000)
			}
		}
		c.Step("b%d = Flip(%s,%d,%d)", p.nextName, p.name(a), s, e)
		c.Guard(sig, func() { res = roaring.Flip(p.live[a].B, s, e) })
		want = p.live[a].M.Clone()
		want.FlipRange(s, e-1)
	case "AddOffset":
		a := p.pick()
		d := genOffset(r, p.live[a].M)
		if r.Chance(0.5) || p.lowKeys {
			d = int64(r.Range(0, 140000)) - 70000
		}
		c.Step("b%d = AddOffset64(%s,%d)", p.nextName, p.name(a), d)
		c.Guard(sig, func() { res = roaring.AddOffset64(p.live[a].B, d) })
		want = p.live[a].M.Shift(d, max32)
	default: // aggregates
		ix := p.pickList(5)
		list := make([]*roaring.Bitmap, len(ix))
		for k, i := range ix {
			list[k] = p.live[i].B
		}
		if r.Chance(0.2) {
			list = append(list, roaring.New())
			ix = append(ix, -1)
		}
		before := append([]*roaring.Bitmap(nil), list...)
		par := []int{0, 1, 2, 3, 4, 7}[r.Intn(6)]
		names := "["
		for k, i := range ix {
			if k > 0 {
				names += ","
			}
			if i < 0 {
				names += "empty"
			} else {
				names += p.name(i)
			}
		}
		names += "]"
		c.Step("b%d = %s(%s) workers=%d", p.nextName, op, names, par)
		c.Guard(sig, func() {
			switch op {
			case "FastOr":
				res = roaring.FastOr(list...)
			case "FastAnd":
				res = roaring.FastAnd(list...)
			case "HeapOr":
				res = roaring.HeapOr(list...)
			case "HeapXor":
				res = roaring.HeapXor(list...)
			case "ParOr":
				res = roaring.ParOr(par, list...)
			case "ParAnd":
				res = roaring.ParAnd(par, list...)
			case "ParHeapOr":
				res = roaring.ParHeapOr(par, list...)
			}
		})
		for k := range before {
			if k >= len(list) || list[k] != before[k] {
				c.Fail(sig+"/argument-slice-changed", "%s modified the caller's argument slice at index %d", op, k)
				break
			}
		}
		want = NewISet()
		first := true
		for _, i := range ix {
			var m *ISet
			if i < 0 {
				m = NewISet()
			} else {
				m = p.live[i].M
			}
			switch op {
			case "FastOr", "HeapOr", "ParOr", "ParHeapOr":
				want = want.Or(m)
			case "HeapXor":
				want = want.Xor(m)
			default:
				if first {
					want = m.Clone()
				} else {
					want = want.And(m)
				}
			}
			first = false
		}
	}
	if c.Failed() || res == nil {
		if res == nil && !c.Failed() {
			c.Fail(sig+"/nil-result", "%s returned nil", op)
		}
		return
	}
	c.Count("create_" + op)
	// a result that is the very object of an input cannot be independent of it: confirm behaviourally
	for i, bm := range p.live {
		if bm.B == res {
			v, ok := want.NextAbsent(0, max32)
			if !ok {
				break
			}
			c.Step("identity probe: result of %s is the same object as %s; Add(%d) to the result", op, p.name(i), v)
			res.Add(uint32(v))
			if bm.B.Contains(uint32(v)) {
				c.Fail(sig+"/returns-input-object", "%s returned its input %s itself: adding %d to the result changed the input", op, p.name(i), v)
				return
			}
			want.Add(v)
		}
	}
	p.add(&BM{B: res, M: want, Form: op})
}

func (p *Pop) mutate(op string) {
	c := p.c
	r := c.R
	sig := "mutate/" + op
	x := p.pick()
	X := p.live[x]
	switch op {
	case "Mutate":
		c.Step("on %s:", p.name(x))
		o := MutOpts{Light: true, COWToggle: !X.ZC, NoClone: true, Sig: "mutate/"}
		if p.lowKeys {
			o.MaxVal = 4<<16 - 1
		}
		if p.mode.RunBias {
			o.OnlyOps = []string{"AddRange", "RemoveRange", "Flip", "Remove", "Add", "RunOptimize", "CheckedRemove", "TrimEnds"}
		}
		p.lastOp = mutateStep(c, X, o)
	case "IAnd", "IOr", "IXor", "IAndNot":
		a := p.pick()
		bop := op[1:]
		c.Step("%s.%s(%s)", p.name(x), bop, p.name(a))
		want := modelOp(bop, X.M, p.live[a].M)
		c.Guard(sig, func() { inplaceOp(bop, X.B, p.live[a].B) })
		X.M = want
	case "AndAny":
		ix := p.pickList(4)
		if len(ix) == 0 {
			ix = []int{p.pick()}
		}
		list := make([]*roaring.Bitmap, len(ix))
		u := NewISet()
		for k, i := range ix {
			list[k] = p.live[i].B
			u = u.Or(p.live[i].M)
		}
		before := append([]*roaring.Bitmap(nil), list...)
		c.Step("%s.AndAny(%s)", p.name(x), p.listNames(ix))
		want := X.M.And(u)
		c.Guard(sig, func() { X.B.AndAny(list...) })
		for k := range before {
			if list[k] != before[k] {
				c.Fail(sig+"/argument-slice-changed", "AndAny modified the caller's argument slice")
			}
		}
		X.M = want
	case "Drop":
		if len(p.live) > 2 {
			c.Step("drop %s", p.name(x))
			p.live = append(p.live[:x], p.live[x+1:]...)
			p.names = append(p.names[:x], p.names[x+1:]...)
		}
	case "SetCOW":
		if !X.ZC {
			v := r.Chance(0.7)
			c.Step("%s.SetCopyOnWrite(%v)", p.name(x), v)
			X.B.SetCopyOnWrite(v)
		}
	}
	c.Count("mutate_" + p.lastOp)
}

// after runs the oracles selected by the mode. Returns false to stop the case.
func (p *Pop) after() bool {
	c := p.c
	if c.Failed() {
		return false
	}
	op := p.lastOp
	p.h = mix(p.h, hashStr(c.hist[len(c.hist)-1]))
	if p.mode.Interference {
		for i, bm := range p.live {
			c.Eval(1)
			if d := checkEq(bm.B, bm.M); d != "" {
				c.Fail("interference/after-"+op, "after step %q bitmap %s no longer equals its model: %s", c.hist[len(c.hist)-1], p.name(i), d)
				return false
			}
		}
	}
	// the alias monitor only STEERS (in every mode): a chunk reachable from two owners without being flagged shared on
	// both sides schedules an ordinary Remove through the unflagged owner as the next step; the verdict comes from the
	// oracles of the mode, evaluated on all live bitmaps after that step
	p.aliasMonitor(op)
	if p.mode.Validity {
		for i, bm := range p.live {
			c.Eval(1)
			if !validityOracle(c, bm.B, "after-"+op, p.name(i)) {
				return false
			}
		}
	}
	if p.mode.SizeBound {
		for i, bm := range p.live {
			if !sizeBoundOracle(c, bm, "after-"+op, p.name(i)) {
				return false
			}
		}
	}
	if !p.mode.Interference {
		// still keep models honest for the bitmap(s) involved: cheap full check every step
		for i, bm := range p.live {
			if d := checkEq(bm.B, bm.M); d != "" {
				c.Fail("content/after-"+op, "bitmap %s differs from its model: %s", p.name(i), d)
				return false
			}
		}
	}
	return true
}

// aliasMonitor joins the hook views of all live bitmaps on container identity and on
// overlapping backing arrays. A chunk reachable from two owners that is not flagged
// shared in both is a suspect; it is confirmed (or not) by a probing write next step.
func (p *Pop) aliasMonitor(op string) {
	c := p.c
	type ref struct {
		owner int
		slot  roaring.VerifSlot
	}
	byObj := map[uintptr]ref{}
	type span struct {
		lo, hi uintptr
		r      ref
	}
	var spans []span
	for i, bm := range p.live {
		v := bm.B.VerifView()
		for _, s := range v.Slots {
			if prev, ok := byObj[s.Obj]; ok && prev.owner != i {
				if !(prev.slot.Shared && s.Shared) {
					c.Count("alias_suspects")
					if p.pendingProbe == nil {
						owner, other := i, prev.owner
						if s.Shared && !prev.slot.Shared {
							owner, other = prev.owner, i
						}
						p.pendingProbe = &aliasSuspect{owner: owner, other: other, key: s.Key, createdBy: op}
					}
				} else {
					c.Count("shared_flagged_both")
				}
			} else if !ok {
				byObj[s.Obj] = ref{i, s}
			}
			if s.Data != 0 && s.Len > 0 {
				spans = append(spans, span{s.Data, s.Data + uintptr(s.Len*s.ElemSize), ref{i, s}})
			}
		}
	}
	// overlapping backing arrays between different container objects of different owners
	if len(spans) < 400 {
		for a := 0; a < len(spans); a++ {
			for b := a + 1; b < len(spans); b++ {
				x, y := spans[a], spans[b]
				if x.r.owner == y.r.owner || x.r.slot.Obj == y.r.slot.Obj {
					continue
				}
				if x.lo < y.hi && y.lo < x.hi && !(x.r.slot.Shared && y.r.slot.Shared) {
					c.Count("alias_suspects_backing_array")
					if p.pendingProbe == nil {
						owner, other := x.r.owner, y.r.owner
						if x.r.slot.Shared {
							owner, other = y.r.owner, x.r.owner
						}
						p.pendingProbe = &aliasSuspect{owner: owner, other: other, key: x.r.slot.Key, createdBy: op}
					}
				}
			}
		}
	}
}

// probe writes through the unflagged owner inside the suspect chunk; the interference
// oracle that runs afterwards confirms or refutes the leak.
func (p *Pop) probe(s *aliasSuspect) {
	c := p.c
	X := p.live[s.owner]
	lo, hi := uint64(s.key)<<16, uint64(s.key)<<16|0xFFFF
	v, ok := X.M.Next(lo)
	p.lastOp = "alias-probe(created-by-" + s.createdBy + ")"
	if !ok || v > hi {
		c.Step("alias probe on %s skipped (chunk %d gone)", p.name(s.owner), s.key)
		return
	}
	c.Step("alias probe: %s.Remove(%d) (container of key %d is also reachable from %s and not flagged shared on both sides; sharing created by %s)", p.name(s.owner), v, s.key, p.name(s.other), s.createdBy)
	c.Count("alias_probes")
	c.Guard("alias-probe", func() { X.B.Remove(uint32(v)) })
	X.M.Remove(v)
}

// ---------------------------------------------------------------- oracles shared with C09 / C14

func validityOracle(c *Ctx, b *roaring.Bitmap, when, name string) bool {
	_, problems, _ := viewSet(b)
	if len(problems) > 0 {
		c.Fail("invariant/"+problemClass(problems[0])+"/"+when, "bitmap %s breaks a representation invariant: %v", name, problems)
		return false
	}
	if err := b.Validate(); err != nil {
		cls := "other"
		if ri := runInefficient(b); len(ri) > 0 {
			cls = "run-chunk-inefficient"
		}
		c.Fail("validate/"+cls+"/"+when, "bitmap %s: Validate() = %v (%v)", name, err, runInefficient(b))
		return false
	}
	return true
}

func roundTripValidity(c *Ctx, b *roaring.Bitmap, m *ISet, when string) bool {
	ok := true
	c.Guard("roundtrip/"+when, func() {
		buf, err := b.ToBytes()
		if err != nil {
			c.Fail("roundtrip/portable/ToBytes/"+when, "ToBytes failed on a library-made bitmap: %v", err)
			ok = false
			return
		}
		rt := roaring.New()
		// the stream may arrive in pieces of any size
		var rerr error
		if c.R.Chance(0.5) {
			_, rerr = rt.ReadFrom(bytes.NewReader(buf))
		} else {
			_, rerr = rt.ReadFrom(&chunkedReader{data: append([]byte(nil), buf...), r: c.R})
		}
		if rerr != nil {
			c.Fail("roundtrip/portable/ReadFrom/"+when, "ReadFrom failed on the library's own bytes: %v", rerr)
			ok = false
			return
		}
		if err := rt.Validate(); err != nil {
			c.Fail("roundtrip/portable/validate/"+when, "portable round trip fails Validate: %v", err)
			ok = false
		}
		if d := checkEq(rt, m); d != "" {
			c.Fail("roundtrip/portable/content/"+when, "portable round trip: %s", d)
			ok = false
		}
		fz, err := b.Freeze()
		if err != nil {
			c.Fail("roundtrip/frozen/Freeze/"+when, "Freeze failed on a library-made bitmap: %v", err)
			ok = false
			return
		}
		fv := roaring.New()
		if err := fv.FrozenView(fz); err != nil {
			c.Fail("roundtrip/frozen/FrozenView/"+when, "FrozenView failed on the library's own bytes: %v", err)
			ok = false
			return
		}
		if err := fv.Validate(); err != nil {
			c.Fail("roundtrip/frozen/validate/"+when, "frozen round trip fails Validate: %v", err)
			ok = false
		}
		if d := checkEq(fv, m); d != "" {
			c.Fail("roundtrip/frozen/content/"+when, "frozen round trip: %s", d)
			ok = false
		}
		_ = fz[len(fz)-1:] // keep the buffer reachable until here
		c.Eval(4)
	})
	return ok && !c.Failed()
}

func sizeBoundOracle(c *Ctx, bm *BM, when, name string) bool {
	b, m := bm.B, bm.M
	n := m.Card()
	if n == 0 {
		return true
	}
	mx, _ := m.Max()
	size := b.GetSerializedSizeInBytes()
	for _, x := range []uint64{mx + 1, ((mx >> 16) + 1) << 16, 1 << 32} {
		chunks := (x + 65535) / 65536
		readme := 8 + 9*chunks + 2*n
		bound := roaring.BoundSerializedSizeInBytes(n, x)
		c.Eval(2)
		if size > readme {
			c.Fail("size/readme-bound/"+when, "bitmap %s: serialized size %d > README bound 8+9*%d+2*%d = %d (x=%d) %v", name, size, chunks, n, readme, x, runInefficient(b))
			return false
		}
		if size > bound {
			c.Fail("size/BoundSerializedSizeInBytes/"+when, "bitmap %s: serialized size %d > BoundSerializedSizeInBytes(%d,%d) = %d %v", name, size, n, x, bound, runInefficient(b))
			return false
		}
	}
	return true
}
