package main

import (
	"fmt"

	"github.com/RoaringBitmap/roaring/v2"
	"github.com/RoaringBitmap/roaring/v2/roaring64"
)

func init() {
	register(&Property{
		ID: "C11", Level: "exploration", Builds: []string{"plain"},
		Rule:        "cases = lists of 0..12 (4 % of them 13..132) bitmaps (empty members, duplicates by pointer and by value, shuffled order; members in 11 storage forms incl. copy-on-write clones and zero-copy decodes) x chunk-kind mixes x key placement {bottom, middle, TOP of the key space ending at 0xFFFF} x key spans {1,2,3,4w-1,4w,4w+1,17,300,1000} for the chosen worker count w; each case evaluates FastOr, HeapOr, ParOr, ParHeapOr (union), FastAnd, ParAnd (intersection), HeapXor (symmetric difference) and x.AndAny(list), the parallel ones for workers {0,1,2,3,4,7,16,33} (a sample of 3 per case) and compares with the fold over the interval-set model, requires Validate()==nil on every result, equality across worker counts, unchanged inputs (raw storage hash) and an unchanged caller slice. Non-trivial: >= 2 non-empty members; distinct = hash(members, placement).",
		Assumptions: []string{"interval-set model validated by selfcheck", "AndAny with an empty list is out of the statement (non-empty list required)"},
		Units: []Unit{
			{Name: "aggregates", Quick: 2500, Thorough: 120000, Run: func(c *Ctx) { c11Aggregates(c, false) }},
			{Name: "cow-shared-full-chunks", Quick: 600, Thorough: 30000, Run: c11CowShapes},
			{Name: "andany-scratch-paths", Quick: 1500, Thorough: 60000, Run: c11AndAnyScratch},
			{Name: "partitions-of-a-target-union", Quick: 1500, Thorough: 60000, Run: c11Partitions},
			{Name: "paror64-top-of-bucket-space", Quick: 400, Thorough: 20000, Run: c11ParOr64Top},
		},
	})
}

type aggMembers struct {
	bms   []*BM
	list  []*roaring.Bitmap
	desc  []string
	w     int
	span  uint64
	base  uint64
	place string
}

func genAggMembers(c *Ctx) *aggMembers {
	r := c.R
	a := &aggMembers{}
	a.w = []int{1, 2, 3, 4, 7, 16}[r.Intn(6)]
	w := uint64(a.w)
	spans := []uint64{1, 2, 3, 4*w - 1, 4 * w, 4*w + 1, 17, 300, 1000}
	a.span = spans[r.Intn(len(spans))]
	if a.span > 100 && r.Chance(0.8) {
		a.span = spans[r.Intn(6)]
	}
	a.place = []string{"bottom", "middle", "top", "top"}[r.Intn(4)]
	switch a.place {
	case "bottom":
		a.base = 0
	case "middle":
		a.base = r.Range(1, 0xFFFF-a.span)
	default:
		a.base = 0x10000 - a.span
	}
	n := r.Intn(13)
	if r.Chance(0.3) {
		n = 2 + r.Intn(3)
	}
	if a.span > 100 && n > 5 {
		n = 2 + r.Intn(4)
	}
	if a.span <= 20 && r.Chance(0.04) {
		n = 13 + r.Intn(120) // long lists (heap-based aggregates, more members than workers / channel slots)
	}
	heavy := 0.4
	if a.span > 20 {
		heavy = 0.02
	}
	for i := 0; i < n; i++ {
		switch x := r.Intn(12); {
		case x == 0 && len(a.bms) > 0: // duplicate by pointer
			k := r.Intn(len(a.bms))
			a.bms = append(a.bms, a.bms[k])
			a.desc = append(a.desc, fmt.Sprintf("same-object-as-%d", k))
			continue
		case x == 1: // empty member
			a.bms = append(a.bms, &BM{B: roaring.New(), M: NewISet(), Form: "empty"})
			a.desc = append(a.desc, "empty")
			continue
		case x == 2 && len(a.bms) > 0: // duplicate by value
			k := r.Intn(len(a.bms))
			f := formsNoZC[r.Intn(len(formsNoZC))]
			bm, es := buildForm(r, a.bms[k].M, f)
			if es == "" {
				a.bms = append(a.bms, bm)
				a.desc = append(a.desc, fmt.Sprintf("same-value-as-%d(%s)", k, f))
				continue
			}
		}
		dens := []float64{0.05, 0.3, 0.7, 1}[r.Intn(4)]
		var ivs []IV
		for k := a.base; k < a.base+a.span; k++ {
			edge := k == a.base || k == a.base+a.span-1
			if !(r.Chance(dens) || (edge && r.Chance(0.7))) {
				continue
			}
			var arch string
			if r.Chance(heavy) {
				arch = heavyArch[r.Intn(len(heavyArch))]
			} else {
				arch = lightArch[r.Intn(len(lightArch))]
			}
			for _, v := range genChunk(r, arch) {
				ivs = append(ivs, IV{k<<16 | v.Lo, k<<16 | v.Hi})
			}
		}
		m := ivsToSet(ivs)
		f := ownedForms[r.Intn(len(ownedForms))]
		bm, es := buildForm(r, m, f)
		if es != "" {
			c.Fail("build/"+f, "%s", es)
			continue
		}
		if !bm.ZC && r.Chance(0.3) {
			bm.B.SetCopyOnWrite(true)
		}
		a.bms = append(a.bms, bm)
		a.desc = append(a.desc, fmt.Sprintf("%s card=%d chunks=%d", bm.Form, m.Card(), len(splitAtChunks(m.iv))))
	}
	r.Shuffle(len(a.bms), func(i, j int) {
		a.bms[i], a.bms[j] = a.bms[j], a.bms[i]
		a.desc[i], a.desc[j] = a.desc[j], a.desc[i]
	})
	for _, bm := range a.bms {
		a.list = append(a.list, bm.B)
	}
	return a
}

var aggFuncs = []string{"FastOr", "HeapOr", "ParOr", "ParHeapOr", "FastAnd", "ParAnd", "HeapXor"}

func aggCall(fn string, w int, list []*roaring.Bitmap) *roaring.Bitmap {
	switch fn {
	case "FastOr":
		return roaring.FastOr(list...)
	case "HeapOr":
		return roaring.HeapOr(list...)
	case "ParOr":
		return roaring.ParOr(w, list...)
	case "ParHeapOr":
		return roaring.ParHeapOr(w, list...)
	case "FastAnd":
		return roaring.FastAnd(list...)
	case "ParAnd":
		return roaring.ParAnd(w, list...)
	case "HeapXor":
		return roaring.HeapXor(list...)
	}
	panic("unknown aggregate " + fn)
}

func aggFold(fn string, bms []*BM) *ISet {
	acc := NewISet()
	for i, bm := range bms {
		switch fn {
		case "FastOr", "HeapOr", "ParOr", "ParHeapOr":
			acc = acc.Or(bm.M)
		case "HeapXor":
			acc = acc.Xor(bm.M)
		default:
			if i == 0 {
				acc = bm.M.Clone()
			} else {
				acc = acc.And(bm.M)
			}
		}
	}
	return acc
}

func isPar(fn string) bool { return fn == "ParOr" || fn == "ParAnd" || fn == "ParHeapOr" }

// aggBattery runs every aggregate on the member list. valueSemantics additionally probes
// results/inputs for interference (C07 flavour).
func aggBattery(c *Ctx, a *aggMembers, valueSemantics bool) {
	r := c.R
	hashes := make([]uint64, len(a.bms))
	for i, bm := range a.bms {
		hashes[i] = storageHash(bm.B)
	}
	inputsIntact := func(fn string) bool {
		for i, bm := range a.bms {
			if storageHash(bm.B) != hashes[i] {
				d := checkEq(bm.B, bm.M)
				c.Fail(fn+"/input-changed", "%s changed the raw storage of input #%d (%s) content-diff=%q", fn, i, a.desc[i], d)
				return false
			}
		}
		c.Eval(1)
		return true
	}
	workersAll := []int{0, 1, 2, 3, 4, 7, 16, 33, 64}
	for _, fn := range aggFuncs {
		if c.Failed() {
			return
		}
		want := aggFold(fn, a.bms)
		ws := []int{0}
		if isPar(fn) {
			ws = []int{a.w, workersAll[r.Intn(len(workersAll))], workersAll[r.Intn(len(workersAll))]}
		}
		var first *roaring.Bitmap
		for _, w := range ws {
			arg := append([]*roaring.Bitmap(nil), a.list...)
			c.Step("%s(workers=%d) over %d members", fn, w, len(arg))
			var res *roaring.Bitmap
			if isPar(fn) {
				verdict, detail, pv := callWithWatchdog(func() { res = aggCall(fn, w, arg) })
				if verdict == "deadlock" {
					c.Fail(fn+"/deadlock", "%s(workers=%d) never returned: all its goroutines are parked on channel operations:\n%s", fn, w, detail)
					return
				}
				if verdict != "ok" {
					c.Note("watchdog fired without confirmation in " + fn)
					return
				}
				if pv != nil {
					c.Fail(fn+"/panic", "%s(workers=%d) panicked: %v", fn, w, pv)
					return
				}
			} else if c.Guard(fn, func() { res = aggCall(fn, w, arg) }) {
				return
			}
			c.Count("agg_" + fn)
			for k := range arg {
				if arg[k] != a.list[k] {
					c.Fail(fn+"/argument-slice-changed", "%s modified the caller's argument slice at index %d", fn, k)
					return
				}
			}
			if res == nil {
				c.Fail(fn+"/nil-result", "%s returned nil", fn)
				return
			}
			c.Eval(1)
			if d := checkEq(res, want); d != "" {
				cls := a.place
				c.Fail(fn+"/result/"+cls, "%s(workers=%d) over %v (keys [%d,%d] placement %s): %s", fn, w, a.desc, a.base, a.base+a.span-1, a.place, d)
				return
			}
			if !validityOracle(c, res, fn, "result") {
				return
			}
			if first == nil {
				first = res
			} else if !first.Equals(res) {
				c.Fail(fn+"/worker-count-dependent", "%s gives different results for different worker counts", fn)
				return
			}
			if !inputsIntact(fn) {
				return
			}
			if valueSemantics {
				aggAliasProbe(c, fn, res, want, a)
				if c.Failed() {
					return
				}
				// the probe may legitimately have rewritten an input (remove + re-add): contents must be intact
				for i, bm := range a.bms {
					if d := checkEq(bm.B, bm.M); d != "" {
						c.Fail(fn+"/input-changed-after-probe", "input #%d (%s): %s", i, a.desc[i], d)
						return
					}
					hashes[i] = storageHash(bm.B)
				}
			}
		}
	}
	// AndAny
	if len(a.bms) > 0 && !c.Failed() {
		x := a.bms[r.Intn(len(a.bms))]
		recv := x.B.Clone()
		if r.Chance(0.3) {
			recv.SetCopyOnWrite(true)
		}
		u := NewISet()
		for _, bm := range a.bms {
			u = u.Or(bm.M)
		}
		want := x.M.And(u)
		c.Step("AndAny: clone of a member .AndAny(all %d members)", len(a.list))
		arg := append([]*roaring.Bitmap(nil), a.list...)
		if c.Guard("AndAny", func() { recv.AndAny(arg...) }) {
			return
		}
		if d := checkEq(recv, want); d != "" {
			c.Fail("AndAny/result", "AndAny: %s", d)
			return
		}
		if !validityOracle(c, recv, "AndAny", "receiver") || !inputsIntact("AndAny") {
			return
		}
		// a receiver unrelated to the list
		y, _ := genSet(r, GenOpts{MaxChunks: 4, HeavyP: 0.5, Keys: []uint64{a.base, a.base + a.span - 1, a.base + a.span/2}})
		yb, es := buildForm(r, y, formsNoZC[r.Intn(len(formsNoZC))])
		if es == "" {
			want2 := y.And(u)
			c.Step("AndAny: fresh receiver %v .AndAny(all members)", descSet(y))
			if c.Guard("AndAny", func() { yb.B.AndAny(arg...) }) {
				return
			}
			if d := checkEq(yb.B, want2); d != "" {
				c.Fail("AndAny/result", "AndAny (fresh receiver): %s", d)
				return
			}
			if !validityOracle(c, yb.B, "AndAny", "receiver") || !inputsIntact("AndAny") {
				return
			}
		}
		// a receiver with a copy-on-write history: clone of an origin, one chunk made private by a write (mixed flags);
		// AndAny must leave the origin exactly as it was
		if !x.M.IsEmpty() {
			// the origin also owns chunks that no member has (they drop out of the receiver, so the slots behind them move)
			om := x.M.Clone()
			for k := 0; k < 1+r.Intn(3); k++ {
				key := edgeVal32(r, om) >> 16
				if r.Chance(0.6) {
					if mn, ok := om.Min(); ok && mn>>16 > 0 {
						key = r.Range(0, mn>>16-1) // in front of everything
					}
				}
				if u.CountRange(key<<16, key<<16|0xFFFF) == 0 {
					om.Add(key<<16 | edgeVal16(r))
				}
			}
			// ... and values no member has inside chunks that members do have (those chunks shrink under AndAny)
			if xi := x.M.Intervals(); len(xi) > 0 {
				for t := 0; t < 6; t++ {
					v := xi[r.Intn(len(xi))]
					y := (v.Lo &^ 0xFFFF) | r.Range(0, 65535)
					if !u.Contains(y) {
						om.Add(y)
					}
				}
			}
			origin, es := buildForm(r, om, formsNoZC[r.Intn(len(formsNoZC))])
			if es == "" {
				origin.B.SetCopyOnWrite(true)
				rc := origin.B.Clone()
				rm := om.Clone()
				ivs := om.Intervals()
				for k := 0; k < 1+r.Intn(2); k++ {
					v := ivs[r.Intn(len(ivs))]
					if r.Chance(0.6) {
						v = ivs[0] // the first chunk becomes private, the later ones stay shared
					}
					y := (v.Lo &^ 0xFFFF) | edgeVal16(r)
					rc.Add(uint32(y))
					rm.Add(y)
				}
				c.Count("andany_cow_receiver_with_private_chunks")
				c.Step("AndAny: receiver = copy-on-write clone of an origin with privately written chunks .AndAny(all members)")
				if c.Guard("AndAny", func() { rc.AndAny(arg...) }) {
					return
				}
				if d := checkEq(rc, rm.And(u)); d != "" {
					c.Fail("AndAny/result", "AndAny (copy-on-write receiver): %s", d)
					return
				}
				if d := checkEq(origin.B, om); d != "" {
					c.Fail("AndAny/clone-parent-changed", "AndAny on a copy-on-write clone changed the bitmap it was cloned from: %s", d)
					return
				}
				if !inputsIntact("AndAny") {
					return
				}
				c.Eval(2)
			}
		}
		c.Eval(4)
	}
}

// aggAliasProbe looks for containers of res that are reachable from an input without being
// flagged shared on both sides and confirms by writing through the unflagged side.
func aggAliasProbe(c *Ctx, fn string, res *roaring.Bitmap, want *ISet, a *aggMembers) {
	rv := res.VerifView()
	for i, bm := range a.bms {
		if bm.B == res {
			c.Fail(fn+"/returns-input-object", "%s returned input #%d itself", fn, i)
			return
		}
		iv := bm.B.VerifView()
		for _, rs := range rv.Slots {
			for _, is := range iv.Slots {
				overlap := rs.Obj == is.Obj || (rs.Data != 0 && is.Data != 0 && rs.Data < is.Data+uintptr(is.Len*is.ElemSize) && is.Data < rs.Data+uintptr(rs.Len*rs.ElemSize))
				if !overlap || (rs.Shared && is.Shared) {
					continue
				}
				c.Count("alias_suspects")
				// write through the unflagged side(s)
				lo := uint64(rs.Key) << 16
				if !rs.Shared {
					if v, ok := want.Next(lo); ok && v <= lo|0xFFFF {
						c.Step("alias probe: result.Remove(%d) (container of key %d shared with input #%d, result side not flagged)", v, rs.Key, i)
						res.Remove(uint32(v))
						want.Remove(v)
						if d := checkEq(bm.B, bm.M); d != "" {
							c.Fail(fn+"/result-shares-container-with-input", "mutating the result of %s changed input #%d (%s): %s", fn, i, a.desc[i], d)
							return
						}
					}
				}
				if !is.Shared && !bm.ZC {
					cl := bm.B // mutate the input itself, then restore the model bookkeeping
					if v, ok := bm.M.Next(lo); ok && v <= lo|0xFFFF {
						c.Step("alias probe: input#%d.Remove(%d) then re-Add (container of key %d shared with the result, input side not flagged)", i, v, rs.Key)
						cl.Remove(uint32(v))
						d := checkEq(res, want)
						cl.Add(uint32(v))
						if d != "" {
							c.Fail(fn+"/result-shares-container-with-input", "mutating input #%d changed the result of %s: %s", i, fn, d)
							return
						}
					}
				}
				return
			}
		}
	}
}

func c11Aggregates(c *Ctx, valueSemantics bool) {
	a := genAggMembers(c)
	c.Step("members=%v workers=%d keys=[%d,%d] placement=%s", a.desc, a.w, a.base, a.base+a.span-1, a.place)
	if c.Failed() {
		return
	}
	nonEmpty := 0
	h := mix(a.base, a.span)
	for _, bm := range a.bms {
		if !bm.M.IsEmpty() {
			nonEmpty++
		}
		h = mix(h, bm.M.Hash())
	}
	if nonEmpty >= 2 {
		c.Distinct(h)
	}
	c.Count("placement_" + a.place)
	c.Count(fmt.Sprintf("span_%d", spanClass(a.span, uint64(a.w))))
	aggBattery(c, a, valueSemantics)
	c.Sample(map[string]any{"unit": "aggregates", "case_seed": c.CaseSeed, "members": a.desc, "workers": a.w, "first_key": a.base, "last_key": a.base + a.span - 1})
}

func spanClass(s, w uint64) int {
	switch {
	case s <= 3:
		return int(s)
	case s == 4*w-1, s == 4*w, s == 4*w+1:
		return 4
	case s >= 300:
		return 1000
	}
	return 17
}

// c11CowShapes targets lists whose members are copy-on-write clones holding full (and other)
// chunks that are flagged shared, with a key layout that sends them through the
// "append a copy, then OR a third input into it" path of the parallel union.
func c11CowShapes(c *Ctx) {
	r := c.R
	a := &aggMembers{w: []int{1, 2, 3, 4}[r.Intn(4)], place: "middle"}
	a.base = r.Range(0, 0xFFF0)
	a.span = 2 + r.Range(0, 5)
	n := 3 + r.Intn(3)
	kfull := a.base + r.Range(0, a.span-1)
	for i := 0; i < n; i++ {
		m := NewISet()
		for k := a.base; k < a.base+a.span; k++ {
			if k == kfull {
				switch {
				case i == 0:
					m.AddRange(k<<16, k<<16|0xFFFF) // full chunk in the first member
				case i == 1:
					// absent in the second member
				default:
					if r.Chance(0.8) {
						for _, v := range genChunk(r, lightArch[r.Intn(len(lightArch))]) {
							m.AddRange(k<<16|v.Lo, k<<16|v.Hi)
						}
					}
				}
				continue
			}
			if r.Chance(0.6) {
				arch := []string{"full", "rnd50", "sparse", "oneRun", "arr4096"}[r.Intn(5)]
				for _, v := range genChunk(r, arch) {
					m.AddRange(k<<16|v.Lo, k<<16|v.Hi)
				}
			}
		}
		bm, es := buildForm(r, m, []string{"cowclone", "cowclone", "opt", "range", "frozen", "frombuffer"}[r.Intn(6)])
		if es != "" {
			c.Fail("build", "%s", es)
			return
		}
		a.bms = append(a.bms, bm)
		a.desc = append(a.desc, fmt.Sprintf("%s card=%d", bm.Form, m.Card()))
	}
	if r.Chance(0.5) {
		r.Shuffle(len(a.bms), func(i, j int) {
			a.bms[i], a.bms[j] = a.bms[j], a.bms[i]
			a.desc[i], a.desc[j] = a.desc[j], a.desc[i]
		})
	}
	for _, bm := range a.bms {
		a.list = append(a.list, bm.B)
	}
	c.Step("members=%v workers=%d keys=[%d,%d] full chunk at key %d", a.desc, a.w, a.base, a.base+a.span-1, kfull)
	h := mix(a.base, a.span)
	for _, bm := range a.bms {
		h = mix(h, bm.M.Hash())
	}
	c.Distinct(h)
	aggBattery(c, a, true)
}

// c11AndAnyScratch targets AndAny's per-key scratch containers: receiver chunks of every kind
// (incl. full runs) x 2-4 filter chunks whose cardinalities sum to more / less than 4096 while
// their union is smaller / larger, over several keys so that the scratch containers are reused.
func c11AndAnyScratch(c *Ctx) {
	r := c.R
	nkeys := 1 + r.Intn(3)
	keys := genKeys(r, nkeys)
	nf := 2 + r.Intn(3)
	recv := NewISet()
	filters := make([]*ISet, nf)
	for i := range filters {
		filters[i] = NewISet()
	}
	for _, k := range keys {
		base := k << 16
		// receiver chunk
		ra := []string{"full", "full", "oneRun", "rnd50", "arr4096", "sparse", "fullMinusFew", "manyShortRuns", "denseLow"}[r.Intn(9)]
		for _, v := range genChunk(r, ra) {
			recv.AddRange(base|v.Lo, base|v.Hi)
		}
		// filter chunks: overlapping arrays / runs with controlled sizes
		mode := r.Intn(4)
		common := ivsToSet(spreadN(r, []int{1500, 2500, 3000, 4000, 4090, 4096, 4096, 4097}[r.Intn(8)]))
		exact := r.Chance(0.5) // the union of the overlapping filters is exactly the common part
		for i := 0; i < nf; i++ {
			if r.Chance(0.15) {
				continue // this filter lacks the key
			}
			var ch *ISet
			switch mode {
			case 0: // heavy overlap: sum > 4096, union <= 4096
				ch = common.Clone()
				for j := 0; j < r.Intn(40) && !exact; j++ {
					ch.Add(r.Range(0, 65535))
				}
			case 1: // disjoint smallish arrays: sum <= 4096
				ch = ivsToSet(spreadN(r, 200+r.Intn(1000)))
			case 2: // runs
				ch = ivsToSet(genChunk(r, []string{"fewRuns", "oneRun", "manyShortRuns", "runsTouchEdges"}[r.Intn(4)]))
			default:
				ch = ivsToSet(genChunk(r, []string{"rnd10", "sparse", "arr4095", "bmp4097", "full", "single65535"}[r.Intn(6)]))
			}
			for _, v := range ch.iv {
				filters[i].AddRange(base|v.Lo, base|v.Hi)
			}
		}
	}
	form := func() string {
		return []string{"addmany", "opt", "range", "cowclone", "frombuffer", "frozen"}[r.Intn(6)]
	}
	R, es := buildForm(r, recv, form())
	if es != "" {
		c.Fail("build", "%s", es)
		return
	}
	var list []*roaring.Bitmap
	var fbs []*BM
	u := NewISet()
	for _, fm := range filters {
		fb, es := buildForm(r, fm, form())
		if es != "" {
			c.Fail("build", "%s", es)
			return
		}
		fbs = append(fbs, fb)
		list = append(list, fb.B)
		u = u.Or(fm)
	}
	c.Step("receiver form=%s %v; %d filters over keys %v", R.Form, descSet(recv), nf, keys)
	for i, fb := range fbs {
		c.Step("filter #%d form=%s %v", i, fb.Form, descSet(fb.M))
	}
	want := recv.And(u)
	hashes := make([]uint64, len(fbs))
	for i, fb := range fbs {
		hashes[i] = storageHash(fb.B)
	}
	x := R.B.Clone()
	if r.Chance(0.3) {
		x.SetCopyOnWrite(true)
	}
	vx := x.VerifView()
	for _, s := range vx.Slots {
		c.Count("andany_receiver_chunk_" + kindName[s.Kind])
	}
	if c.Guard("AndAny", func() { x.AndAny(list...) }) {
		return
	}
	c.Eval(1)
	if d := checkEq(x, want); d != "" {
		c.Fail("AndAny/result", "AndAny: %s", d)
		return
	}
	if !validityOracle(c, x, "AndAny", "receiver") {
		return
	}
	for i, fb := range fbs {
		if storageHash(fb.B) != hashes[i] {
			c.Fail("AndAny/input-changed", "AndAny changed the raw storage of filter #%d", i)
			return
		}
	}
	if d := checkEq(R.B, recv); d != "" {
		c.Fail("AndAny/clone-source-changed", "AndAny on a clone changed the bitmap it was cloned from: %s", d)
		return
	}
	if c.Prop == "C14" {
		// size bound after AndAny and while single values are removed from the result (no RunOptimize)
		bm := &BM{B: x, M: want.Clone()}
		if !sizeBoundOracle(c, bm, "after-AndAny", "receiver") {
			return
		}
		for i := 0; i < 6 && !bm.M.IsEmpty(); i++ {
			v, _ := bm.M.Select(r.U64n(bm.M.Card()))
			c.Step("Remove(%d)", v)
			x.Remove(uint32(v))
			bm.M.Remove(v)
			if d := checkEq(x, bm.M); d != "" {
				c.Fail("content/after-AndAny-Remove", "%s", d)
				return
			}
			if !sizeBoundOracle(c, bm, "after-AndAny-then-Remove", "receiver") {
				return
			}
		}
		c.Distinct(mix(recv.Hash(), u.Hash()))
		return
	}
	// the result must be usable and independent
	probeMutate(c, x, want.Clone(), "AndAny")
	for i, fb := range fbs {
		if d := checkEq(fb.B, fb.M); d != "" {
			c.Fail("AndAny/input-changed-later", "mutating the receiver after AndAny changed filter #%d: %s", i, d)
			return
		}
	}
	c.Distinct(mix(recv.Hash(), u.Hash()))
}

// c11ParOr64Top: roaring64.ParOr with buckets at the top of the 32-bit bucket-key space and
// spans that are not multiples of the chunk size.
func c11ParOr64Top(c *Ctx) {
	r := c.R
	span := uint64(2 + r.Intn(40))
	top := r.Chance(0.7)
	base := uint64(0x100000000) - span
	if !top {
		base = r.Range(0, 1<<31)
	}
	n := 2 + r.Intn(3)
	var list []*roaring64.Bitmap
	want := NewISet()
	for i := 0; i < n; i++ {
		m := NewISet()
		for k := base; k < base+span; k++ {
			if r.Chance(0.6) || k == base || k == base+span-1 {
				lo := k<<32 | r.Range(0, 100000)
				m.AddRange(lo, lo+r.Range(0, 50))
			}
		}
		bm, es := build64(r, m, forms64[r.Intn(len(forms64))])
		if es != "" {
			c.Fail("build64", "%s", es)
			return
		}
		list = append(list, bm.B)
		want = want.Or(m)
	}
	c.Step("roaring64.ParOr over %d bitmaps, buckets [%d,%d] (top of the bucket space=%v)", n, base, base+span-1, top)
	c.Distinct(mix(want.Hash(), span))
	for _, w := range []int{1, 2, 3, 4, 7, 0} {
		var res *roaring64.Bitmap
		if c.Guard("ParOr64/top", func() { res = roaring64.ParOr(w, append([]*roaring64.Bitmap(nil), list...)...) }) {
			return
		}
		c.Eval(1)
		if d := checkEq64(res, want); d != "" {
			c.Fail("ParOr64/result/top-of-bucket-space", "roaring64.ParOr(workers=%d) over buckets [%d,%d]: %s", w, base, base+span-1, d)
			return
		}
		if !validate64(c, res, "ParOr64") {
			return
		}
	}
}

// exactCardChunk returns a chunk (intervals inside [0,65535]) holding exactly n values, as one run,
// a few runs, or scattered values.
func exactCardChunk(r *Rng, n int) *ISet {
	s := NewISet()
	switch r.Intn(3) {
	case 0:
		lo := r.Range(0, uint64(65536-n))
		if r.Chance(0.4) {
			lo = []uint64{0, uint64(65536 - n)}[r.Intn(2)]
		}
		s.AddRange(lo, lo+uint64(n)-1)
	case 1:
		left := uint64(n)
		pos := r.Range(0, 64)
		for left > 0 && pos < 65536 {
			l := minU(left, r.Range(1, uint64(n)/2+1))
			if pos+l > 65536 {
				break
			}
			s.AddRange(pos, pos+l-1)
			left -= l
			pos += l + r.Range(1, 64)
		}
		if s.Card() != uint64(n) {
			return ivsToSet(spreadN(r, n))
		}
	default:
		return ivsToSet(spreadN(r, n))
	}
	return s
}

// c11Partitions: the members are an (overlapping) partition of a chosen target union whose chunks sit
// exactly on representation thresholds (65536, 65535, 32768, 16384, 4097, 4096, 4095 values); every
// union-type aggregate must give back the target. Members meet in every order and kind pairing.
func c11Partitions(c *Ctx) {
	r := c.R
	keys := genKeys(r, 1+r.Intn(3))
	target := NewISet()
	for _, k := range keys {
		n := []int{65536, 65536, 65535, 32768, 32768, 16384, 8192, 4097, 4096, 4095}[r.Intn(10)]
		ch := exactCardChunk(r, n)
		if n == 65535 {
			ch = ISetOf(IV{0, 65535})
			ch.Remove(edgeVal16(r))
		}
		for _, v := range ch.iv {
			target.AddRange(k<<16|v.Lo, k<<16|v.Hi)
		}
	}
	nm := 2 + r.Intn(4)
	parts := make([]*ISet, nm)
	for i := range parts {
		parts[i] = NewISet()
	}
	// deal the pieces of every chunk to the members; pieces are runs, single values or scattered subsets
	for _, v := range splitAtChunks(target.iv) {
		lo := v.Lo
		for lo <= v.Hi {
			hi := v.Hi
			switch r.Intn(4) {
			case 0:
				hi = lo // a single value
			case 1:
				hi = minU(v.Hi, lo+r.Range(0, 5000))
			}
			i := r.Intn(nm)
			parts[i].AddRange(lo, hi)
			if r.Chance(0.2) {
				parts[r.Intn(nm)].AddRange(lo, hi)
			}
			lo = hi + 1
		}
	}
	// optionally one member is "everything but a few values" and another one holds exactly those
	if r.Chance(0.4) && nm >= 2 && !target.IsEmpty() {
		holes := NewISet()
		for i := 0; i < 1+r.Intn(3); i++ {
			x, _ := target.Select(r.U64n(target.Card()))
			holes.Add(x)
		}
		parts[0] = target.AndNot(holes)
		parts[1] = holes
	}
	a := &aggMembers{w: []int{1, 2, 3, 4}[r.Intn(4)], place: "partition"}
	for i, pm := range parts {
		f := []string{"range", "opt", "addmany", "add", "cowclone", "frombuffer", "mixed"}[r.Intn(7)]
		bm, es := buildForm(r, pm, f)
		if es != "" {
			c.Fail("build/"+f, "%s", es)
			return
		}
		a.bms = append(a.bms, bm)
		a.list = append(a.list, bm.B)
		a.desc = append(a.desc, fmt.Sprintf("#%d %s card=%d", i, f, pm.Card()))
	}
	if len(keys) > 0 {
		a.base, a.span = keys[0], keys[len(keys)-1]-keys[0]+1
	}
	c.Step("target union %v dealt to %d members: %v", descSet(target), nm, a.desc)
	c.Distinct(mix(target.Hash(), hashStr(fmt.Sprint(a.desc))))
	v := a.bms[0].B.VerifView()
	for _, s := range v.Slots {
		c.Count("partition_member0_chunk_" + kindName[s.Kind])
	}
	aggBattery(c, a, false)
}
