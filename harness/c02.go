package main

import (
	"fmt"

	"github.com/RoaringBitmap/roaring/v2"
)

func init() {
	register(&Property{
		ID: "C02", Level: "exploration", Builds: []string{"plain"},
		Rule:        "cases = seeded mutation histories (20-400 steps over Add/CheckedAdd/AddInt/AddMany/Remove/CheckedRemove/AddRange/RemoveRange/Flip/Clear/RunOptimize/Clone/CloneCopyOnWriteContainers/SetCopyOnWrite) from a generated start bitmap in a random storage form, plus threshold 'ratchet' histories, plus ALL histories of length<=2 (quick) / <=3 (thorough) over an 8-value boundary domain; after every step the stored content (decoded from raw containers via the hook) and the public API are compared with the interval-set model. A case is non-trivial when its history changed the model at least once; distinct = distinct hash of (start set, step list). Ranges may be empty or inverted; TrimEnds bursts remove the current maximum / minimum repeatedly; the ratchet also splits runs (removal strictly inside a run) and merges them (addition into a one-wide gap).",
		Assumptions: []string{"the interval-set model (validated against a brute-force bitset by selfcheck)", "documented-panic arguments (AddRange/Flip end > 2^32) are out of domain and not generated"},
		Units: []Unit{
			{Name: "histories", Quick: 2600, Thorough: 150000, Run: c02Histories},
			{Name: "ratchet", Quick: 1500, Thorough: 40000, Run: c02Ratchet},
			{Name: "exhaustive-small-domain", ExhaustiveN: c02ExhN, RunIndexed: c02Exh},
		},
	})
}

// stepOracle checks bm against its model after a step; sig is the op that ran.
func stepOracle(c *Ctx, bm *BM, sig string) bool {
	if d := checkEq(bm.B, bm.M); d != "" {
		c.Fail(sig+"/content", "%s", d)
		return false
	}
	c.Eval(1)
	if bm.B.IsEmpty() != bm.M.IsEmpty() {
		c.Fail(sig+"/IsEmpty", "IsEmpty=%v model empty=%v", bm.B.IsEmpty(), bm.M.IsEmpty())
		return false
	}
	return true
}

func c02Histories(c *Ctx) {
	r := c.R
	bm := genBM(c, GenOpts{MaxChunks: 5, HeavyP: 0.35}, false)
	c.Step("start form=%s set=%v", bm.Form, descSet(bm.M))
	if r.Chance(0.3) {
		c.Step("SetCopyOnWrite(true)")
		bm.B.SetCopyOnWrite(true)
	}
	steps := 20 + r.Intn(100)
	if r.Chance(0.1) {
		steps = 200 + r.Intn(200)
	}
	h := bm.M.Hash()
	changed := false
	o := MutOpts{COWToggle: true, Sig: "", Light: r.Chance(0.6), Huge: r.Chance(0.06)}
	for i := 0; i < steps && !c.Failed(); i++ {
		before := bm.M.Hash()
		vb := bm.B.VerifView()
		op := mutateStep(c, bm, o)
		if c.Failed() {
			break
		}
		thresholdEvents(c, vb, bm.B.VerifView())
		if !stepOracle(c, bm, op) {
			break
		}
		c.SetAdd("representation_states", kindVectorHash(bm.B))
		// earlier incarnations (left behind by Clone steps) must be unaffected
		for _, p := range bm.prevClones() {
			if i%8 != 7 && i != steps-1 {
				break
			}
			if d := checkEq(p.B, p.M); d != "" {
				c.Fail(op+"/earlier-clone-changed", "a bitmap cloned earlier changed: %s", d)
			}
		}
		if bm.M.Hash() != before {
			changed = true
		}
		h = mix(h, hashStr(c.hist[len(c.hist)-1]))
	}
	if changed {
		c.Distinct(h)
	}
	c.Sample(map[string]any{"unit": "histories", "case_seed": c.CaseSeed, "steps": firstN(c.hist, 12)})
}

func firstN(s []string, n int) []string {
	if len(s) > n {
		return append(append([]string(nil), s[:n]...), fmt.Sprintf("… (%d steps in total)", len(s)))
	}
	return s
}

// c02Ratchet walks one chunk back and forth across the 4096/4097 and 65535/65536 thresholds.
func c02Ratchet(c *Ctx) {
	r := c.R
	key := genKeys(r, 1)[0]
	base := key << 16
	var start *ISet
	target := []uint64{4096, 65536}[r.Intn(2)]
	runEdge := false
	if target == 4096 && r.Chance(0.5) {
		// a chunk of two- and three-value runs with R in {2046,2047,2048} runs and 4094..4096 values: exactly
		// at the array/bitmap threshold AND at the edge of run efficiency (2047 runs is the largest run chunk
		// that is still the smallest form); gaps >= 4 so that a random absent value is rarely adjacent to a run
		runEdge = true
		R := 2046 + r.Intn(3)
		c0 := 4094 + r.Intn(5) // 4094..4098
		st := NewISet()
		pos := uint64(r.Range(0, 8))
		threes := c0 - 2*R
		for i := 0; i < R; i++ {
			l := uint64(2)
			if i < threes {
				l = 3
			}
			st.AddRange(pos, pos+l-1)
			pos += l + r.Range(4, 26)
		}
		start = ivsToSet(shiftIVs(st.iv, base))
	} else if target == 4096 {
		start = ivsToSet(shiftIVs(spreadN(r, 4090+r.Intn(12)), base))
	} else {
		start = ISetOf(IV{base, base + 65535})
		for i := 0; i < r.Intn(4); i++ {
			start.Remove(base + edgeVal16(r))
		}
	}
	form := formsNoZC[r.Intn(len(formsNoZC))]
	if runEdge {
		form = []string{"range", "opt"}[r.Intn(2)]
	}
	bm, es := buildForm(r, start, form)
	if es != "" {
		c.Fail("build/"+form, "%s", es)
		return
	}
	c.Step("start form=%s key=%d card=%d target=%d", form, key, start.Card(), target)
	if r.Chance(0.3) {
		bm.B.SetCopyOnWrite(true)
		c.Step("SetCopyOnWrite(true)")
	}
	h := start.Hash()
	for i := 0; i < 120 && !c.Failed(); i++ {
		card := bm.M.CountRange(base, base+65535)
		var op string
		vb := bm.B.VerifView()
		switch {
		case card < target || (card == target && r.Chance(0.5)):
			// add a missing value (or a small range of them)
			comp := bm.M.ComplementIn(base, base+65535)
			if comp.IsEmpty() {
				continue
			}
			x, _ := comp.Select(r.U64n(comp.Card()))
			if r.Chance(0.2) {
				// a one-wide gap between two runs (filling it merges them: one run less, one value more)
				var gaps []uint64
				for _, g := range comp.Intervals() {
					if g.Lo == g.Hi && g.Lo > base && g.Hi < base+65535 {
						gaps = append(gaps, g.Lo)
					}
				}
				if len(gaps) > 0 {
					x = gaps[r.Intn(len(gaps))]
					c.Count("ratchet_additions_merging_two_runs")
				}
			}
			switch r.Intn(4) {
			case 0:
				op = "Add"
				c.Step("Add(%d)", x)
				c.Guard(op, func() { bm.B.Add(uint32(x)) })
				bm.M.Add(x)
			case 1:
				op = "CheckedAdd"
				c.Step("CheckedAdd(%d)", x)
				c.Guard(op, func() {
					if !bm.B.CheckedAdd(uint32(x)) {
						c.Fail("CheckedAdd/return", "CheckedAdd(%d) returned false for an absent value", x)
					}
				})
				bm.M.Add(x)
			case 2:
				op = "AddRange"
				e := minU(x+1+r.Range(0, 3), base+65536)
				c.Step("AddRange(%d,%d)", x, e)
				c.Guard(op, func() { bm.B.AddRange(x, e) })
				bm.M.AddRange(x, e-1)
			default:
				op = "Flip"
				c.Step("Flip(%d,%d)", x, x+1)
				c.Guard(op, func() { bm.B.Flip(x, x+1) })
				bm.M.FlipRange(x, x)
			}
		default:
			in := bm.M.Restrict(base, base+65535)
			x, _ := in.Select(r.U64n(in.Card()))
			if r.Chance(0.3) {
				// a value strictly inside a run (its removal splits the run: one more run, one value less)
				var inner []IV
				for _, v := range in.Intervals() {
					if v.Hi-v.Lo >= 2 {
						inner = append(inner, v)
					}
				}
				if len(inner) > 0 {
					v := inner[r.Intn(len(inner))]
					x = r.Range(v.Lo+1, v.Hi-1)
					c.Count("ratchet_removals_splitting_a_run")
				}
			}
			switch r.Intn(4) {
			case 0:
				op = "Remove"
				c.Step("Remove(%d)", x)
				c.Guard(op, func() { bm.B.Remove(uint32(x)) })
				bm.M.Remove(x)
			case 1:
				op = "CheckedRemove"
				c.Step("CheckedRemove(%d)", x)
				c.Guard(op, func() {
					if !bm.B.CheckedRemove(uint32(x)) {
						c.Fail("CheckedRemove/return", "CheckedRemove(%d) returned false for a present value", x)
					}
				})
				bm.M.Remove(x)
			case 2:
				op = "RemoveRange"
				e := minU(x+1+r.Range(0, 3), base+65536)
				c.Step("RemoveRange(%d,%d)", x, e)
				c.Guard(op, func() { bm.B.RemoveRange(x, e) })
				bm.M.RemoveRange(x, e-1)
			default:
				op = "Flip"
				c.Step("Flip(%d,%d)", x, x+1)
				c.Guard(op, func() { bm.B.Flip(x, x+1) })
				bm.M.FlipRange(x, x)
			}
		}
		if r.Chance(0.08) {
			c.Step("RunOptimize()")
			bm.B.RunOptimize()
		}
		thresholdEvents(c, vb, bm.B.VerifView())
		if !stepOracle(c, bm, op) {
			return
		}
		h = mix(h, hashStr(c.hist[len(c.hist)-1]))
		c.SetAdd("representation_states", kindVectorHash(bm.B))
	}
	c.Distinct(h)
}

func shiftIVs(ivs []IV, base uint64) []IV {
	out := make([]IV, len(ivs))
	for i, v := range ivs {
		out[i] = IV{v.Lo + base, v.Hi + base}
	}
	return out
}

// ---- exhaustive: all histories of length <= L over the boundary domain

// two boundary domains: the bottom and the top of the 32-bit universe (ends may be 2^32)
var exhDoms = [2][]uint64{
	{0, 63, 64, 4095, 4096, 65535, 65536, 131071},
	{1<<32 - 131072, 1<<32 - 65537, 1<<32 - 65536, 1<<32 - 65535, 1<<32 - 4096, 1<<32 - 64, 1<<32 - 2, max32},
}

type exhAct struct {
	op   int // 0 Add 1 Remove 2 AddRange 3 RemoveRange 4 Flip
	a, b uint64
}

func mkExhActs(dom []uint64, top uint64) []exhAct {
	var out []exhAct
	for _, v := range dom {
		out = append(out, exhAct{0, v, 0}, exhAct{1, v, 0})
	}
	ends := append(append([]uint64(nil), dom...), top)
	for i := range ends {
		for j := i + 1; j < len(ends); j++ {
			for op := 2; op <= 4; op++ {
				out = append(out, exhAct{op, ends[i], ends[j]})
			}
		}
	}
	return out
}

var exhActsD = [2][]exhAct{mkExhActs(exhDoms[0], 131072), mkExhActs(exhDoms[1], 1<<32)}

func exhPerDomain(tier string) int {
	n := len(exhActsD[0])
	if tier == "thorough" {
		return n + n*n + n*n*n
	}
	return n + n*n
}

func c02ExhN(tier string) int { return 2 * exhPerDomain(tier) }

func (a exhAct) String() string {
	switch a.op {
	case 0:
		return fmt.Sprintf("Add(%d)", a.a)
	case 1:
		return fmt.Sprintf("Remove(%d)", a.a)
	case 2:
		return fmt.Sprintf("AddRange(%d,%d)", a.a, a.b)
	case 3:
		return fmt.Sprintf("RemoveRange(%d,%d)", a.a, a.b)
	}
	return fmt.Sprintf("Flip(%d,%d)", a.a, a.b)
}

func c02Exh(c *Ctx, index int) {
	per := exhPerDomain(c.Tier)
	exhActs := exhActsD[index/per]
	index0 := index
	index %= per
	n := len(exhActs)
	var seq []exhAct
	switch {
	case index < n:
		seq = []exhAct{exhActs[index]}
	case index < n+n*n:
		k := index - n
		seq = []exhAct{exhActs[k/n], exhActs[k%n]}
	default:
		k := index - n - n*n
		seq = []exhAct{exhActs[k/(n*n)], exhActs[(k/n)%n], exhActs[k%n]}
	}
	b := roaring.New()
	m := NewISet()
	bm := &BM{B: b, M: m}
	changed := false
	for _, a := range seq {
		c.Step("%s", a.String())
		before := m.Hash()
		c.Guard("exh/"+[]string{"Add", "Remove", "AddRange", "RemoveRange", "Flip"}[a.op], func() {
			switch a.op {
			case 0:
				if got, want := b.CheckedAdd(uint32(a.a)), !m.Contains(a.a); got != want {
					c.Fail("CheckedAdd/return", "CheckedAdd(%d)=%v want %v", a.a, got, want)
				}
				m.Add(a.a)
			case 1:
				if got, want := b.CheckedRemove(uint32(a.a)), m.Contains(a.a); got != want {
					c.Fail("CheckedRemove/return", "CheckedRemove(%d)=%v want %v", a.a, got, want)
				}
				m.Remove(a.a)
			case 2:
				b.AddRange(a.a, a.b)
				m.AddRange(a.a, a.b-1)
			case 3:
				b.RemoveRange(a.a, a.b)
				m.RemoveRange(a.a, a.b-1)
			case 4:
				b.Flip(a.a, a.b)
				m.FlipRange(a.a, a.b-1)
			}
		})
		if c.Failed() {
			return
		}
		if m.Hash() != before {
			changed = true
		}
		if !stepOracle(c, bm, a.String()[:3]) {
			return
		}
	}
	if changed {
		c.Distinct(mix(uint64(index0), 0xC02))
	}
}
