package main

import (
	"bytes"
	"fmt"
	"os"
	"path/filepath"

	"github.com/RoaringBitmap/roaring/v2"
)

func init() {
	register(&Property{
		ID: "C06", Level: "exploration", Builds: []string{"plain"},
		Rule:        "write direction: every bitmap of the C05 population (history-dependent chunk kinds, 0..300 chunks, one 65536-chunk bitmap) is serialized and decoded by an INDEPENDENT decoder written from the published RoaringFormatSpec (plain encoding/binary, no library code), which also checks the structural rules (cookie, chunk count, run-flag bits, strictly ascending keys, cardinality-minus-one fields, offset header present iff cookie 12346 or >= 4 chunks and pointing at each payload, array iff cardinality <= 4096, run count + (start,length-1) pairs sorted and disjoint, exact stream length). Read direction: an INDEPENDENT encoder enumerates the legal choices of other implementations (cookie 12346 vs 12347; 12347 with zero, some or all chunks run-encoded; per-chunk run vs array/bitmap; maximal runs or runs split into adjacent pieces; 0,1,3,4,5,many chunks) and the library must read exactly the encoded set through ReadFrom, FromBuffer and FromUnsafeBytes (ToArray, GetCardinality, Contains probes, Iterator). Golden files written by the Java/C implementations are decoded by both and compared. Non-trivial: non-empty set; distinct = hash(set, encoder choices). Exhaustive sub-spaces: every chunk count in both directions, every run count 1..32768 of a foreign run chunk (quick: 1..2200 + edges), receiver growth x stream size with foreign streams.",
		Assumptions: []string{"the independent codec is this author's reading of the RoaringFormatSpec; the golden files of other implementations mitigate a shared misreading", "Validate() is not required of spec-legal streams with non-maximal runs"},
		Units: []Unit{
			{Name: "write-direction", Quick: 15000, Thorough: 500000, Run: c06Write},
			{Name: "read-direction", Quick: 15000, Thorough: 500000, Run: c06Read},
			{Name: "golden-files", Quick: 1, Thorough: 1, Run: c06Golden, Serial: true},
			{Name: "65536-chunks-both-cookies", Quick: 2, Thorough: 6, Run: c06Huge},
			{Name: "every-run-count", ExhaustiveN: func(t string) int { return len(runCounts(t)) }, RunIndexed: c06EveryRunCount},
			{Name: "every-chunk-count", ExhaustiveN: func(t string) int { return len(chunkCounts(t)) }, RunIndexed: c06EveryCount},
			{Name: "receiver-growth-x-stream-size", ExhaustiveN: growthCases, RunIndexed: func(c *Ctx, i int) { receiverGrowthCase(c, i, true) }},
		},
	})
}

func c06Write(c *Ctx) {
	bm := genSerBM(c)
	if c.Failed() {
		return
	}
	b, m := bm.B, bm.M
	var wire []byte
	var err error
	if c.Guard("ToBytes", func() { wire, err = b.ToBytes() }) {
		return
	}
	if err != nil {
		c.Fail("write/ToBytes-error", "ToBytes failed: %v", err)
		return
	}
	ds, used, info, derr := specDecode(wire)
	c.Eval(1)
	if derr != nil {
		c.Fail("write/spec-decoder-rejects", "the independent spec decoder rejects the library's bytes: %v", derr)
		return
	}
	if used != len(wire) {
		c.Fail("write/stream-length", "the stream is %d bytes but the spec layout accounts for %d", len(wire), used)
		return
	}
	if len(info.Strict) > 0 {
		c.Fail("write/structural-rule", "structural rules broken by the written stream: %v", info.Strict)
		return
	}
	if !ds.Equal(m) {
		d, _ := ds.FirstDiff(m)
		c.Fail("write/decoded-set-differs", "the spec decoder reads a different set: first differing value %d; decoded=%s model=%s", d, ds, m)
		return
	}
	// the spec prescribes the payload kind by cardinality; the cookie must be run-capable iff a run chunk exists
	hasRun := false
	v := b.VerifView()
	for i, s := range v.Slots {
		if i < len(info.Chunks) {
			want := kindName[s.Kind]
			if info.Chunks[i].Kind != want {
				c.Fail("write/payload-kind", "chunk %d stored as %s but written as %s", i, want, info.Chunks[i].Kind)
				return
			}
		}
		if s.Kind == roaring.VerifRun {
			hasRun = true
		}
	}
	if hasRun != (info.Cookie == cookieRun) {
		c.Fail("write/cookie", "cookie %d with run chunks present=%v", info.Cookie, hasRun)
		return
	}
	c.Count("cookie_" + map[uint32]string{cookieRun: "12347", cookieNoRun: "12346"}[info.Cookie])
	if info.N >= 4 {
		c.Count("streams_with_ge4_chunks")
	} else {
		c.Count("streams_with_lt4_chunks")
	}
	if !m.IsEmpty() {
		c.Distinct(mix(m.Hash(), kindVectorHash(b)))
	}
	c.Eval(3)
	// the SAME object is written again after its layout changed (chunks removed in front, added behind, kinds changed):
	// whatever a writer keeps between calls must not leak into the next stream
	for round := 0; round < 3 && !c.Failed(); round++ {
		for i := 0; i < 1+c.R.Intn(4) && !c.Failed(); i++ {
			if c.R.Chance(0.3) {
				algebraStep(c, bm, "write/then-")
			} else {
				mutateStep(c, bm, MutOpts{Light: true, NoClone: true, Sig: "write/then-"})
			}
		}
		if c.Failed() {
			return
		}
		var wire2 []byte
		if c.Guard("ToBytes", func() { wire2, err = bm.B.ToBytes() }) {
			return
		}
		if err != nil {
			c.Fail("write/ToBytes-error", "ToBytes of the mutated bitmap failed: %v", err)
			return
		}
		ds2, used2, info2, derr2 := specDecode(wire2)
		c.Eval(1)
		if derr2 != nil || used2 != len(wire2) || len(info2.Strict) > 0 || !ds2.Equal(bm.M) {
			c.Fail("write/same-object-written-again", "after mutating the bitmap and writing the same object again the independent decoder sees: err=%v used=%d/%d strict=%v equal=%v", derr2, used2, len(wire2), firstN(info2.Strict, 3), ds2 != nil && ds2.Equal(bm.M))
			return
		}
		c.Count("same_object_written_again")
	}
	c.Sample(map[string]any{"unit": "write-direction", "case_seed": c.CaseSeed, "bytes": len(wire), "cookie": info.Cookie, "chunks": info.N, "set": descSet(m)})
}

func c06Read(c *Ctx) {
	r := c.R
	o := GenOpts{MaxChunks: 6, HeavyP: 0.35}
	switch r.Intn(8) {
	case 0:
		o = GenOpts{MaxChunks: 120, HeavyP: 0.02}
	case 1:
		o.Keys = []uint64{}
	}
	m, _ := genSet(r, o)
	if r.Chance(0.25) {
		// exactly 3, 4 or 5 chunks
		m = NewISet()
		for _, k := range genKeys(r, 3+r.Intn(3)) {
			for _, v := range genChunk(r, lightArch[r.Intn(len(lightArch))]) {
				m.AddRange(k<<16|v.Lo, k<<16|v.Hi)
			}
		}
	}
	ch := encChoice{ForceRunCookie: r.Chance(0.4), RunP: []float64{0, 0, 0.3, 0.7, 1}[r.Intn(5)], SplitRuns: r.Chance(0.4)}
	wire := specEncode(r, m, ch)
	// the encoder must satisfy the decoder (self-consistency of the oracle)
	if ds, used, _, err := specDecode(wire); err != nil || used != len(wire) || !ds.Equal(m) {
		c.Fail("harness/codec-inconsistent", "independent encoder/decoder disagree: err=%v used=%d/%d", err, used, len(wire))
		return
	}
	c.Step("independent encoder: choices=%+v set=%v stream=%d bytes", ch, descSet(m), len(wire))
	c.Count("encoder_cookie_" + map[bool]string{true: "12347", false: "12346"}[wire[0] == 0x3B])
	if ch.SplitRuns {
		c.Count("encoder_split_runs")
	}
	if !m.IsEmpty() {
		c.Distinct(mix(m.Hash(), hashStr(string(wire[:minI(len(wire), 16)]))))
	}
	if !c06CheckRead(c, wire, m, ch) {
		return
	}
	c.Sample(map[string]any{"unit": "read-direction", "case_seed": c.CaseSeed, "choices": ch, "bytes": len(wire), "set": descSet(m)})
}

// c06CheckRead decodes a spec-conformant stream through three entry points and compares the result with the set
// the stream encodes, through the public API only (the stream may be non-canonical).
func c06CheckRead(c *Ctx, wire []byte, m *ISet, ch encChoice) bool {
	r := c.R
	for _, name := range []string{"ReadFrom", "FromBuffer", "FromUnsafeBytes"} {
		dst := roaring.New()
		var n int64
		var err error
		buf := append([]byte(nil), wire...)
		if c.Guard("read/"+name, func() {
			switch name {
			case "ReadFrom":
				if r.Chance(0.5) {
					n, err = dst.ReadFrom(bytes.NewReader(buf))
				} else {
					src := sourceZoo(r, buf)
					c.Step("source: %s", src.name)
					c.Count("source_" + src.name)
					n, err = dst.ReadFrom(src.rd)
					src.done()
				}
			case "FromBuffer":
				n, err = dst.FromBuffer(buf)
			default:
				n, err = dst.FromUnsafeBytes(buf)
			}
		}) {
			return false
		}
		if err != nil {
			c.Fail("read/"+name+"/rejects-conformant-stream", "%s rejects a spec-conformant stream (choices %+v): %v", name, ch, err)
			return false
		}
		if n != int64(len(wire)) {
			c.Fail("read/"+name+"/byte-count", "%s consumed %d of %d bytes", name, n, len(wire))
			return false
		}
		c.Eval(1)
		// the set, through the public API only (the stream may be non-canonical)
		c.Guard("read/"+name+"/queries", func() {
			if g := dst.GetCardinality(); g != m.Card() {
				c.Fail("read/"+name+"/GetCardinality", "%s: GetCardinality=%d, the stream encodes %d values (choices %+v)", name, g, m.Card(), ch)
				return
			}
			if m.Card() <= 1<<18 {
				as := apiSet(dst)
				if !as.Equal(m) {
					d, _ := as.FirstDiff(m)
					c.Fail("read/"+name+"/ToArray", "%s: ToArray differs from the encoded set at %d (choices %+v)", name, d, ch)
					return
				}
				it := dst.Iterator()
				cur := newCursor(m)
				for it.HasNext() {
					w, ok := cur.next()
					if g := uint64(it.Next()); !ok || g != w {
						c.Fail("read/"+name+"/Iterator", "%s: Iterator yields %d, want %d", name, g, w)
						return
					}
				}
				if _, ok := cur.next(); ok {
					c.Fail("read/"+name+"/Iterator", "%s: Iterator ends early", name)
					return
				}
			}
			for i := 0; i < 40; i++ {
				x := edgeVal32(r, m)
				if dst.Contains(uint32(x)) != m.Contains(x) {
					c.Fail("read/"+name+"/Contains", "%s: Contains(%d)=%v", name, x, dst.Contains(uint32(x)))
					return
				}
			}
			c.Eval(4)
		})
		_ = buf[len(buf)-1:]
		if c.Failed() {
			return false
		}
	}
	return true
}

func c06Golden(c *Ctx) {
	repo := os.Getenv("VERIF_REPO")
	if repo == "" {
		repo = "/repo"
	}
	files := []string{"testdata/bitmapwithruns.bin", "testdata/bitmapwithoutruns.bin", "testfrozendata/arrays_only.portable", "testfrozendata/bitmaps_only.portable", "testfrozendata/mixed.portable", "testfrozendata/runs_only.portable"}
	for i, f := range files {
		data, err := os.ReadFile(filepath.Join(repo, f))
		if err != nil {
			c.Note("golden file missing: " + f)
			continue
		}
		c.Step("golden file %s (%d bytes)", f, len(data))
		ds, used, info, derr := specDecode(data)
		if derr != nil {
			c.Fail("golden/spec-decoder-rejects", "the independent decoder rejects %s: %v (the oracle disagrees with another implementation's file)", f, derr)
			continue
		}
		dst := roaring.New()
		n, err := dst.ReadFrom(bytes.NewReader(data))
		if err != nil {
			c.Fail("golden/library-rejects", "ReadFrom rejects %s: %v", f, err)
			continue
		}
		if int(n) != used {
			c.Fail("golden/length", "%s: library consumed %d bytes, spec decoder %d", f, n, used)
		}
		if d := checkEq(dst, ds); d != "" {
			c.Fail("golden/set-differs", "%s: library and independent decoder read different sets: %s", f, d)
		}
		// and the library's re-serialization must decode to the same set
		wire, err := dst.ToBytes()
		if err == nil {
			ds2, _, _, derr2 := specDecode(wire)
			if derr2 != nil || !ds2.Equal(ds) {
				c.Fail("golden/reserialize", "%s: re-serialized stream decodes differently (err=%v)", f, derr2)
			}
		}
		c.Eval(4)
		c.Count("golden_files_checked")
		c.Distinct(mix(uint64(i), ds.Hash()))
		c.Sample(map[string]any{"unit": "golden-files", "file": f, "cookie": info.Cookie, "chunks": info.N, "cardinality": ds.Card()})
	}
	// frozen golden files vs the independent frozen parser
	for i, f := range []string{"arrays_only", "bitmaps_only", "mixed", "runs_only"} {
		fz, err1 := os.ReadFile(filepath.Join(repo, "testfrozendata", f+".frozen"))
		pt, err2 := os.ReadFile(filepath.Join(repo, "testfrozendata", f+".portable"))
		if err1 != nil || err2 != nil {
			continue
		}
		fs, _, ferr := frozenDecode(fz)
		ps, _, _, perr := specDecode(pt)
		if ferr != nil || perr != nil || !fs.Equal(ps) {
			c.Fail("golden/frozen-vs-portable", "%s: independent frozen parser and portable decoder disagree (ferr=%v perr=%v)", f, ferr, perr)
		}
		c.Eval(1)
		c.Distinct(mix(uint64(100+i), fs.Hash()))
	}
}

// c06Huge: all 65536 chunks present (the chunk-count field of the run-capable cookie is 0xFFFF),
// in both directions and with both cookies.
func c06Huge(c *Ctx) {
	r := c.R
	m := NewISet()
	for k := uint64(0); k < 65536; k++ {
		lo := k<<16 | r.Range(0, 60000)
		m.AddRange(lo, lo+r.Range(0, 40))
	}
	runCookie := c.CaseSeed%2 == 0
	c.Step("65536 chunks, run-capable cookie=%v", runCookie)
	c.Distinct(mix(m.Hash(), b2u(runCookie)))
	// read direction: independent encoder
	ch := encChoice{ForceRunCookie: runCookie, RunP: 0}
	if runCookie {
		ch.RunP = 0.5
	}
	wire := specEncode(r, m, ch)
	for _, name := range []string{"ReadFrom", "FromBuffer"} {
		dst := roaring.New()
		var n int64
		var err error
		if c.Guard("read/"+name+"/65536-chunks", func() {
			if name == "ReadFrom" {
				n, err = dst.ReadFrom(bytes.NewReader(wire))
			} else {
				n, err = dst.FromBuffer(wire)
			}
		}) {
			return
		}
		if err != nil || n != int64(len(wire)) {
			c.Fail("read/"+name+"/65536-chunks", "%s of a conformant 65536-chunk stream (run cookie=%v): n=%d of %d err=%v", name, runCookie, n, len(wire), err)
			return
		}
		if d := checkEq(dst, m); d != "" {
			c.Fail("read/"+name+"/65536-chunks/content", "%s", d)
			return
		}
		c.Eval(2)
	}
	// write direction
	b := roaring.New()
	for _, v := range m.Intervals() {
		b.AddRange(v.Lo, v.Hi+1)
	}
	if runCookie {
		b.RunOptimize()
	} else {
		// no run chunk at all: rebuild from values
		b = roaring.New()
		m.ForEach(func(x uint64) bool { b.Add(uint32(x)); return true })
	}
	out, err := b.ToBytes()
	if err != nil {
		c.Fail("write/ToBytes-error", "%v", err)
		return
	}
	ds, used, info, derr := specDecode(out)
	if derr != nil || used != len(out) || len(info.Strict) > 0 || !ds.Equal(m) {
		c.Fail("write/65536-chunks", "independent decoder on the library's 65536-chunk stream: err=%v used=%d/%d strict=%v equal=%v", derr, used, len(out), firstN(info.Strict, 3), ds != nil && ds.Equal(m))
		return
	}
	c.Count(fmt.Sprintf("huge_cookie_%d", info.Cookie))
	c.Eval(1)
	_ = wire[len(wire)-1]
}
