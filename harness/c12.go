package main

import (
	"bytes"
	"fmt"
	"io"
	"runtime"
	"strings"
	"sync"
	"sync/atomic"
	"time"

	"github.com/RoaringBitmap/roaring/v2"
	"github.com/RoaringBitmap/roaring/v2/roaring64"
)

func init() {
	register(&Property{
		ID: "C12", Level: "exploration", Builds: []string{"race"},
		Rule:        "race-detector build (-race, checkptr off) with the trace hooks on: every parallel entry point (ParOr, ParAnd, ParHeapOr, roaring64.ParOr) x list shapes {zero work items, one item, fewer items than workers, > 160 items so that inputChan/resultChan fill, one vs many containers per key, ParAnd without a common key, top of the key space} x workers {0,1,2,3,8,33,64} x GOMAXPROCS {1,2,4,16} x perturbation seeds: at every protocol event (spec/chunk/input/result/expected/answer sent or received, channels closed) the hook records (event,id) and yields or sleeps 0-200us chosen by a seeded PRNG, while 2 background goroutines spin on Gosched; each call is repeated. Detectors: (1) WARNING: DATA RACE reports with library frames on both sides (parsed by the parent); (2) result != sequential fold, or two runs differ; (3) a call that does not return within 120 s AND whose goroutines are all parked on channel operations in two dumps 5 s apart = deadlock (anything else = inconclusive); (4) goroutines with a parallel-aggregation frame still alive 10 s after return = leak; (5) input raw-storage hash changed; (6) 32 goroutines decoding their own streams through the shared reader pools must each get their own set; (7) the goroutine-parallel paths of both bit-sliced indexes (ClearValues, ParOr, NewBSIRetainSet, Sum, the parallel executors behind CompareValue / MinMax / Transpose / BatchEqual, worker counts 0..16) run the C19 update histories and the C20 query batteries under the race detector with their model oracles. Non-trivial: a call with >= 2 non-empty inputs; distinct = hash(inputs, workers, GOMAXPROCS, perturbation seed); evidence lists distinct event orders observed. The pool stress interleaves failing decodes (proper prefixes) with valid ones on every goroutine. The BSI units run inside a wrapper with a GOMAXPROCS draw per case, a blocked-forever watchdog over goroutines inside bsi.go / bsi64.go and a goroutine-leak poll.",
		Assumptions: []string{"the race detector sees only executed accesses and the synchronisation it understands (channels, sync, atomic: all that the library uses)", "a finite set of schedules is explored; the claim is 'no race / deadlock / leak on the schedules produced'"},
		Units: []Unit{
			{Name: "parallel-aggregates@race", Quick: 420, Thorough: 20000, Run: c12Par},
			{Name: "parallel-aggregates-64@race", Quick: 160, Thorough: 8000, Run: c12Par64},
			{Name: "shared-pools@race", Quick: 8, Thorough: 100, Run: c12Pools},
			{Name: "bsi-goroutine-paths-updates@race", Quick: 500, Thorough: 20000, Run: c12BSI(c19Histories)},
			{Name: "bsi-goroutine-paths-queries@race", Quick: 400, Thorough: 15000, Run: c12BSI(c20Queries)},
		},
	})
}

type traceRec struct {
	mu     sync.Mutex
	events []string
	rng    *Rng
	on     bool
	count  map[string]int64
}

var tracer = &traceRec{count: map[string]int64{}}

func (t *traceRec) hook(ev string, id int) {
	t.mu.Lock()
	if !t.on {
		t.mu.Unlock()
		return
	}
	if len(t.events) < 20000 {
		t.events = append(t.events, fmt.Sprintf("%s:%d", ev, id))
	}
	t.count[ev]++
	x := t.rng.Intn(10)
	d := time.Duration(t.rng.Intn(200)) * time.Microsecond
	t.mu.Unlock()
	switch {
	case x < 4:
	case x < 8:
		runtime.Gosched()
	default:
		time.Sleep(d)
	}
}

func (t *traceRec) start(seed uint64) {
	t.mu.Lock()
	t.events = t.events[:0]
	t.rng = NewRng(seed)
	t.on = true
	t.mu.Unlock()
}

func (t *traceRec) stop() (uint64, int) {
	t.mu.Lock()
	defer t.mu.Unlock()
	t.on = false
	h := uint64(14695981039346656037)
	for _, e := range t.events {
		h = hstep(h, hashStr(e))
	}
	return h, len(t.events)
}

var installTraceOnce sync.Once

func installTrace() {
	installTraceOnce.Do(func() {
		roaring.VerifSetTrace(tracer.hook)
		roaring64.VerifSetTrace(tracer.hook)
	})
}

var watchdogLimitNs = int64(120 * time.Second)

// callWithWatchdog runs f; verdict "ok", "deadlock" (confirmed), or "inconclusive".
func callWithWatchdog(f func()) (verdict string, detail string, pv any) {
	// a few witnesses per process are enough: every blocked call leaves its goroutines behind for good, and a
	// library that blocks forever must not make the check itself take forever
	if atomic.LoadInt64(&deadlocksWitnessed) >= 4 {
		return "inconclusive", "skipped: four deadlocks were already confirmed in this process", nil
	}
	done := make(chan struct{})
	go func() {
		defer func() {
			if r := recover(); r != nil {
				pv = fmt.Sprintf("%v\n%s", r, trimStack(allStacks()))
			}
			close(done)
		}()
		f()
	}()
	// after a first confirmed deadlock in this process later calls get a short limit
	limit := time.Duration(atomic.LoadInt64(&watchdogLimitNs))
	gap := 5 * time.Second
	if atomic.LoadInt64(&deadlocksWitnessed) > 0 {
		gap = 2 * time.Second
	}
	select {
	case <-done:
		return "ok", "", pv
	case <-time.After(limit):
	}
	d1 := parGoroutines()
	time.Sleep(gap)
	select {
	case <-done:
		return "inconclusive", "call returned after the watchdog fired (slow machine)", pv
	default:
	}
	d2 := parGoroutines()
	if d1 == d2 && d1 != "" && allBlockedOnChannels(d1) {
		atomic.StoreInt64(&watchdogLimitNs, int64(4*time.Second))
		atomic.AddInt64(&deadlocksWitnessed, 1)
		return "deadlock", d1, nil
	}
	return "inconclusive", "call still running but not provably blocked:\n" + d2, nil
}

var deadlocksWitnessed int64

// normState reduces "[chan send, 2 minutes]:" / "[chan send]:" / "[select, locked to thread]:" to "[chan send]".
func normState(hdr string) string {
	hdr = strings.TrimSuffix(strings.TrimSpace(hdr), ":")
	if i := strings.Index(hdr, ","); i >= 0 {
		hdr = hdr[:i] + "]"
	}
	return hdr
}

func allStacks() string {
	buf := make([]byte, 1<<20)
	n := runtime.Stack(buf, true)
	return string(buf[:n])
}

// parGoroutines returns the (normalised) stacks of goroutines that are inside a parallel aggregation.
func parGoroutines() string {
	var out []string
	for _, g := range strings.Split(allStacks(), "\n\n") {
		if strings.Contains(g, "roaring") && (strings.Contains(g, "ParOr") || strings.Contains(g, "ParAnd") || strings.Contains(g, "ParHeapOr") || strings.Contains(g, "appenderRoutine") || strings.Contains(g, "parallel.go") || strings.Contains(g, "parallel64.go")) {
			if strings.Contains(g, "callWithWatchdog") && !strings.Contains(g, "parallel") {
				continue
			}
			lines := strings.Split(g, "\n")
			hdr := lines[0]
			if i := strings.Index(hdr, "["); i >= 0 {
				hdr = hdr[i:]
			}
			hdr = normState(hdr)
			var fr []string
			for _, l := range lines[1:] {
				if !strings.HasPrefix(l, "\t") {
					fr = append(fr, strings.TrimSpace(l))
				}
			}
			out = append(out, hdr+" "+strings.Join(fr, " <- "))
		}
	}
	return strings.Join(out, "\n")
}

func allBlockedOnChannels(dump string) bool {
	for _, l := range strings.Split(dump, "\n") {
		if l == "" {
			continue
		}
		if !(strings.HasPrefix(l, "[chan send") || strings.HasPrefix(l, "[chan receive") || strings.HasPrefix(l, "[select")) {
			return false
		}
	}
	return true
}

// leakCheck polls for goroutines that are still inside the parallel machinery.
var leakWitnessed int64

func leakCheck() string {
	// leaked goroutines stay for good: after the first confirmed leak in this process later polls would all wait the
	// full 10 s and report the same goroutines again
	if atomic.LoadInt64(&leakWitnessed) != 0 {
		return ""
	}
	var d string
	// up to 10 s: on a loaded machine the released workers may take a while to be scheduled and exit
	for i := 0; i < 2000; i++ {
		d = ""
		for _, g := range strings.Split(allStacks(), "\n\n") {
			if strings.Contains(g, "parallel.go") || strings.Contains(g, "parallel64.go") {
				if strings.Contains(g, "leakCheck") {
					continue
				}
				d += g + "\n\n"
			}
		}
		if d == "" {
			return ""
		}
		time.Sleep(5 * time.Millisecond)
	}
	atomic.StoreInt64(&leakWitnessed, 1)
	return d
}

func spinners(stop chan struct{}) {
	for i := 0; i < 2; i++ {
		go func() {
			for {
				select {
				case <-stop:
					return
				default:
					runtime.Gosched()
				}
			}
		}()
	}
}

func genParMembers(c *Ctx) (*aggMembers, string) {
	r := c.R
	shape := []string{"all-empty", "one-item", "few-items", "many-items", "many-containers-per-key", "no-common-key", "top-of-keyspace", "generic", "generic"}[r.Intn(9)]
	a := &aggMembers{place: "middle"}
	a.w = []int{0, 1, 2, 3, 8, 33, 64}[r.Intn(7)]
	mk := func(keys []uint64, arch func() string) *BM {
		m := NewISet()
		for _, k := range keys {
			for _, v := range genChunk(r, arch()) {
				m.AddRange(k<<16|v.Lo, k<<16|v.Hi)
			}
		}
		f := formsNoZC[r.Intn(len(formsNoZC))]
		bm, es := buildForm(r, m, f)
		if es != "" {
			c.Fail("build/"+f, "%s", es)
			return &BM{B: roaring.New(), M: NewISet()}
		}
		if r.Chance(0.3) {
			bm.B.SetCopyOnWrite(true)
		}
		return bm
	}
	light := func() string { return lightArch[r.Intn(len(lightArch))] }
	mixed := func() string {
		if r.Chance(0.4) {
			return heavyArch[r.Intn(len(heavyArch))]
		}
		return light()
	}
	base := r.Range(0, 0xF000)
	seq := func(n int) []uint64 {
		out := make([]uint64, n)
		for i := range out {
			out[i] = base + uint64(i)
		}
		return out
	}
	switch shape {
	case "all-empty":
		for i := 0; i < 1+r.Intn(4); i++ {
			a.bms = append(a.bms, &BM{B: roaring.New(), M: NewISet()})
		}
	case "one-item":
		k := []uint64{base}
		for i := 0; i < 2+r.Intn(3); i++ {
			a.bms = append(a.bms, mk(k, mixed))
		}
	case "few-items":
		ks := seq(1 + r.Intn(3))
		for i := 0; i < 2+r.Intn(3); i++ {
			a.bms = append(a.bms, mk(ks, mixed))
		}
	case "many-items":
		ks := seq(170 + r.Intn(160))
		for i := 0; i < 2+r.Intn(2); i++ {
			a.bms = append(a.bms, mk(ks, light))
		}
	case "many-containers-per-key":
		ks := seq(2 + r.Intn(3))
		for i := 0; i < 6+r.Intn(8); i++ {
			a.bms = append(a.bms, mk(ks, mixed))
		}
	case "no-common-key":
		for i := 0; i < 2+r.Intn(3); i++ {
			a.bms = append(a.bms, mk([]uint64{base + uint64(i)*3, base + uint64(i)*3 + 1}, mixed))
		}
	case "top-of-keyspace":
		n := 2 + r.Intn(40)
		base = 0x10000 - uint64(n)
		ks := seq(n)
		for i := 0; i < 2+r.Intn(3); i++ {
			var sub []uint64
			for _, k := range ks {
				if r.Chance(0.7) || k == 0xFFFF {
					sub = append(sub, k)
				}
			}
			a.bms = append(a.bms, mk(sub, light))
		}
	default:
		return genAggMembers(c), "generic"
	}
	for _, bm := range a.bms {
		a.list = append(a.list, bm.B)
		a.desc = append(a.desc, fmt.Sprintf("%s card=%d", bm.Form, bm.M.Card()))
	}
	return a, shape
}

func c12Par(c *Ctx) {
	installTrace()
	r := c.R
	a, shape := genParMembers(c)
	if c.Failed() {
		return
	}
	procs := []int{1, 2, 4, 16}[r.Intn(4)]
	old := runtime.GOMAXPROCS(procs)
	defer runtime.GOMAXPROCS(old)
	c.Step("shape=%s members=%v workers=%d GOMAXPROCS=%d", shape, a.desc, a.w, procs)
	c.Count("shape_" + shape)
	c.Count(fmt.Sprintf("gomaxprocs_%d", procs))
	c.Count(fmt.Sprintf("workers_%d", a.w))
	nonEmpty := 0
	h := mix(uint64(a.w), uint64(procs))
	hashes := make([]uint64, len(a.bms))
	for i, bm := range a.bms {
		if !bm.M.IsEmpty() {
			nonEmpty++
		}
		h = mix(h, bm.M.Hash())
		hashes[i] = storageHash(bm.B)
	}
	stop := make(chan struct{})
	spinners(stop)
	defer close(stop)
	for _, fn := range []string{"ParOr", "ParAnd", "ParHeapOr"} {
		want := aggFold(fn, a.bms)
		var first *roaring.Bitmap
		reps := 2 + r.Intn(2)
		for rep := 0; rep < reps; rep++ {
			pseed := r.Uint64()
			tracer.start(pseed)
			var res *roaring.Bitmap
			arg := append([]*roaring.Bitmap(nil), a.list...)
			verdict, detail, pv := callWithWatchdog(func() { res = aggCall(fn, a.w, arg) })
			th, nev := tracer.stop()
			c.Eval(1)
			switch verdict {
			case "deadlock":
				c.Fail(fn+"/deadlock", "%s(workers=%d) never returned: all its goroutines are parked on channel operations in two dumps 5 s apart:\n%s", fn, a.w, detail)
				return
			case "inconclusive":
				c.Note("watchdog fired without confirmation: " + firstLines(detail, 6))
				c.Count("inconclusive_watchdog")
				return
			}
			if pv != nil {
				c.Fail(fn+"/panic", "%s(workers=%d) panicked: %v", fn, a.w, pv)
				return
			}
			c.SetAdd("event_orders_"+fn, th)
			c.CountN("trace_events", int64(nev))
			if d := checkEq(res, want); d != "" {
				c.Fail(fn+"/result/"+shape, "%s(workers=%d, GOMAXPROCS=%d, perturbation seed %d): %s", fn, a.w, procs, pseed, d)
				return
			}
			if first == nil {
				first = res
			} else if !first.Equals(res) {
				c.Fail(fn+"/schedule-dependent", "two runs of the same %s call returned different bitmaps", fn)
				return
			}
			if lk := leakCheck(); lk != "" {
				c.Fail(fn+"/goroutine-leak", "goroutines of %s still alive 10 s after it returned:\n%s", fn, firstLines(lk, 30))
				return
			}
			for i, bm := range a.bms {
				if storageHash(bm.B) != hashes[i] {
					c.Fail(fn+"/input-changed", "%s changed the raw storage of input #%d", fn, i)
					return
				}
			}
			if nonEmpty >= 2 {
				c.Distinct(mix(mix(h, hashStr(fn)), pseed))
			}
		}
	}
	c.Sample(map[string]any{"unit": "parallel-aggregates", "case_seed": c.CaseSeed, "shape": shape, "members": a.desc, "workers": a.w, "gomaxprocs": procs})
}

func c12Pools(c *Ctx) {
	r := c.R
	const G = 32
	iters := 120
	type job struct {
		wire32 []byte
		m32    *ISet
		wire64 []byte
		m64    *ISet
		bad32  [][]byte // proper prefixes of wire32: every decoder must return an error for them
		bad64  [][]byte
	}
	jobs := make([]job, G)
	for i := range jobs {
		o := GenOpts{MaxChunks: 4, HeavyP: 0.3}
		if i%4 == 0 {
			o = GenOpts{MaxChunks: 300, HeavyP: 0.02} // long decodes overlap more
		}
		m, _ := genSet(r, o)
		b, es := buildForm(r, m, "opt")
		if es != "" {
			c.Fail("build", "%s", es)
			return
		}
		w, _ := b.B.ToBytes()
		jobs[i].wire32, jobs[i].m32 = w, m
		b64 := roaring64.New()
		m64 := NewISet()
		for k := 0; k < 50; k++ {
			v := r.Range(0, 3)<<32 | r.Range(0, 200000)
			b64.Add(v)
			m64.Add(v)
		}
		w64, _ := b64.ToBytes()
		jobs[i].wire64, jobs[i].m64 = w64, m64
		for k := 0; k < 4; k++ {
			if len(w) > 1 {
				jobs[i].bad32 = append(jobs[i].bad32, append([]byte(nil), w[:r.Intn(len(w)-1)+1]...))
			}
			if len(w64) > 9 {
				jobs[i].bad64 = append(jobs[i].bad64, append([]byte(nil), w64[:8+r.Intn(len(w64)-9)+1]...))
			}
		}
	}
	failed := int64(0)
	c.Step("%d goroutines x %d iterations decoding their own streams through the shared reader pools", G, iters)
	var wg sync.WaitGroup
	var mu sync.Mutex
	var errs []string
	for g := 0; g < G; g++ {
		wg.Add(1)
		go func(g int) {
			defer wg.Done()
			defer func() {
				if rec := recover(); rec != nil {
					mu.Lock()
					errs = append(errs, fmt.Sprintf("goroutine %d panicked: %v", g, rec))
					mu.Unlock()
				}
			}()
			j := jobs[g]
			for it := 0; it < iters; it++ {
				// error paths hand pooled adapters back too: decodes that fail (truncated streams, a reader that
				// fails mid-stream) are interleaved with the valid ones, on every goroutine
				if (it+g)%2 == 0 && len(j.bad32) > 0 {
					bad := j.bad32[it%len(j.bad32)]
					fb := roaring.New()
					var ferr error
					switch (it / 2) % 5 {
					case 0:
						_, ferr = fb.FromBuffer(bad)
					case 1:
						_, ferr = fb.ReadFrom(bytes.NewReader(bad))
					case 2:
						_, ferr = fb.FromUnsafeBytes(bad)
					case 3:
						ferr = fb.UnmarshalBinary(bad)
					default:
						_, ferr = fb.ReadFrom(&chunkedReaderNoRng{data: bad, step: 1 + it%5})
					}
					if ferr != nil {
						atomic.AddInt64(&failed, 1)
					}
					if len(j.bad64) > 0 {
						bad64 := j.bad64[it%len(j.bad64)]
						fb64 := roaring64.New()
						if it%4 == 0 {
							_, ferr = fb64.FromUnsafeBytes(append([]byte(nil), bad64...))
						} else {
							_, ferr = fb64.ReadFrom(bytes.NewReader(bad64))
						}
						if ferr != nil {
							atomic.AddInt64(&failed, 1)
						}
					}
				}
				b := roaring.New()
				var err error
				switch it % 3 {
				case 0:
					_, err = b.ReadFrom(&chunkedReaderNoRng{data: j.wire32, step: 1 + it%7})
				case 1:
					_, err = b.FromBuffer(j.wire32)
				default:
					_, err = b.ReadFrom(bytes.NewReader(j.wire32))
				}
				if err != nil || !apiSet(b).Equal(j.m32) {
					mu.Lock()
					errs = append(errs, fmt.Sprintf("goroutine %d iteration %d: 32-bit decode wrong (err=%v)", g, it, err))
					mu.Unlock()
					return
				}
				b64 := roaring64.New()
				if _, err := b64.ReadFrom(bytes.NewReader(j.wire64)); err != nil || !set64FromArray(b64.ToArray()).Equal(j.m64) {
					mu.Lock()
					errs = append(errs, fmt.Sprintf("goroutine %d iteration %d: 64-bit decode wrong (err=%v)", g, it, err))
					mu.Unlock()
					return
				}
			}
		}(g)
	}
	wg.Wait()
	c.Eval(int64(G * iters * 2))
	c.CountN("pool_decodes_that_returned_an_error_interleaved", atomic.LoadInt64(&failed))
	c.Distinct(c.CaseSeed)
	for _, e := range errs {
		c.Fail("pools/concurrent-decode", "%s", e)
	}
}

type chunkedReaderNoRng struct {
	data []byte
	step int
}

func (cr *chunkedReaderNoRng) Read(p []byte) (int, error) {
	if len(cr.data) == 0 {
		return 0, io.EOF
	}
	n := cr.step
	if n > len(p) {
		n = len(p)
	}
	if n > len(cr.data) {
		n = len(cr.data)
	}
	copy(p, cr.data[:n])
	cr.data = cr.data[n:]
	return n, nil
}

func set64FromArray(a []uint64) *ISet { return ISetFromValues(a) }

func c12Par64(c *Ctx) {
	installTrace()
	r := c.R
	procs := []int{1, 2, 4, 16}[r.Intn(4)]
	old := runtime.GOMAXPROCS(procs)
	defer runtime.GOMAXPROCS(old)
	w := []int{0, 1, 2, 3, 8, 33, 64}[r.Intn(7)]
	n := r.Intn(6)
	var bms []*BM64
	shape := []string{"generic", "same-bucket", "many-buckets", "with-empties", "hundreds-of-buckets"}[r.Intn(5)]
	for i := 0; i < n; i++ {
		var m *ISet
		switch shape {
		case "same-bucket":
			inner, _ := genSet(r, GenOpts{MaxChunks: 4, HeavyP: 0.3})
			m = ivsToSet(shiftIVs(inner.iv, 5<<32))
		case "hundreds-of-buckets":
			// more work items than the channels can hold (chunk count > 3*workers+32)
			m = NewISet()
			nb := uint64(140 + r.Intn(200))
			for k := uint64(0); k < nb; k++ {
				if r.Chance(0.8) || k == 0 || k == nb-1 {
					m.Add((k+7)<<32 | r.Range(0, 70000))
				}
			}
		case "many-buckets":
			m = NewISet()
			for k := uint64(0); k < 12; k++ {
				if r.Chance(0.6) {
					m.Add((k+0xFFFFFFF0)<<32 | r.Range(0, 100000))
					m.AddRange(k<<32|100, k<<32|100+r.Range(0, 5000))
				}
			}
		default:
			m = genSet64(r, 4)
		}
		if shape == "with-empties" && r.Chance(0.4) {
			m = NewISet()
		}
		bm, es := build64(r, m, forms64[r.Intn(len(forms64))])
		if es != "" {
			c.Fail("build64", "%s", es)
			return
		}
		if r.Chance(0.3) {
			bm.B.SetCopyOnWrite(true)
		}
		bms = append(bms, bm)
	}
	c.Step("roaring64.ParOr shape=%s members=%d workers=%d GOMAXPROCS=%d", shape, n, w, procs)
	want := NewISet()
	hashes := make([]uint64, len(bms))
	list := make([]*roaring64.Bitmap, len(bms))
	h := mix(uint64(w), uint64(procs))
	for i, bm := range bms {
		want = want.Or(bm.M)
		hashes[i] = storageHash64(bm.B)
		list[i] = bm.B
		h = mix(h, bm.M.Hash())
	}
	stop := make(chan struct{})
	spinners(stop)
	defer close(stop)
	var first *roaring64.Bitmap
	for rep := 0; rep < 3; rep++ {
		pseed := r.Uint64()
		tracer.start(pseed)
		var res *roaring64.Bitmap
		arg := append([]*roaring64.Bitmap(nil), list...)
		verdict, detail, pv := callWithWatchdog(func() { res = roaring64.ParOr(w, arg...) })
		th, nev := tracer.stop()
		c.Eval(1)
		if verdict == "deadlock" {
			c.Fail("ParOr64/deadlock", "roaring64.ParOr never returned:\n%s", detail)
			return
		}
		if verdict == "inconclusive" {
			c.Note("watchdog fired without confirmation")
			return
		}
		if pv != nil {
			c.Fail("ParOr64/panic", "roaring64.ParOr panicked: %v", pv)
			return
		}
		c.SetAdd("event_orders_ParOr64", th)
		c.CountN("trace_events", int64(nev))
		if d := checkEq64(res, want); d != "" {
			c.Fail("ParOr64/result/"+shape, "roaring64.ParOr(workers=%d): %s", w, d)
			return
		}
		if first == nil {
			first = res
		} else if !first.Equals(res) {
			c.Fail("ParOr64/schedule-dependent", "two runs of the same roaring64.ParOr call differ")
			return
		}
		if lk := leakCheck(); lk != "" {
			c.Fail("ParOr64/goroutine-leak", "goroutines still alive after roaring64.ParOr returned:\n%s", firstLines(lk, 30))
			return
		}
		for i, bm := range bms {
			if storageHash64(bm.B) != hashes[i] {
				c.Fail("ParOr64/input-changed", "roaring64.ParOr changed the raw storage of input #%d", i)
				return
			}
			if k := i; arg[k] != list[k] {
				c.Fail("ParOr64/argument-slice-changed", "roaring64.ParOr modified the caller's slice")
				return
			}
		}
		c.Distinct(mix(h, pseed))
	}
}

// ---------------------------------------------------------------- BSI goroutine paths under C12's detectors

var bsiDeadlockSeen int64

// bsiGoroutines returns the (normalised) stacks of goroutines that are inside a bit-sliced index.
func bsiGoroutines() string {
	var out []string
	for _, g := range strings.Split(allStacks(), "\n\n") {
		if !(strings.Contains(g, "BitSliceIndexing/bsi.go") || strings.Contains(g, "roaring64/bsi64.go")) {
			continue
		}
		lines := strings.Split(g, "\n")
		hdr := lines[0]
		if i := strings.Index(hdr, "["); i >= 0 {
			hdr = hdr[i:]
		}
		hdr = normState(hdr)
		var fr []string
		for _, l := range lines[1:] {
			if !strings.HasPrefix(l, "\t") {
				fr = append(fr, strings.TrimSpace(l))
			}
		}
		out = append(out, hdr+" "+strings.Join(fr, " <- "))
	}
	return strings.Join(out, "\n")
}

func allParked(dump string) bool {
	for _, l := range strings.Split(dump, "\n") {
		if l == "" {
			continue
		}
		ok := false
		for _, p := range []string{"[chan send", "[chan receive", "[select", "[semacquire", "[sync.WaitGroup.Wait", "[sync.Mutex.Lock", "[sync.Cond.Wait"} {
			if strings.HasPrefix(l, p) {
				ok = true
			}
		}
		if !ok {
			return false
		}
	}
	return true
}

// c12BSI runs a C19 / C20 workload (whose oracles decide the results) under C12's own detectors: a GOMAXPROCS drawn per
// case, a watchdog that confirms a blocked-forever state of the index's goroutines (all of them parked on channel /
// WaitGroup / lock operations with identical stacks in two dumps 5 s apart), and a poll for goroutines of the index
// that are still alive after the workload returned. The race detector watches the whole run.
func c12BSI(inner func(c *Ctx)) func(c *Ctx) {
	return func(c *Ctx) {
		if atomic.LoadInt64(&bsiDeadlockSeen) != 0 {
			// one witness per process is enough: the goroutines of a blocked call stay around for good
			c.Count("bsi_cases_skipped_after_a_confirmed_deadlock")
			return
		}
		procs := []int{1, 2, 4, 16}[int(c.CaseSeed>>3)%4]
		old := runtime.GOMAXPROCS(procs)
		defer runtime.GOMAXPROCS(old)
		c.Count(fmt.Sprintf("gomaxprocs_bsi_%d", procs))
		done := make(chan struct{})
		var pv any
		go func() {
			defer func() {
				if r := recover(); r != nil {
					pv = fmt.Sprintf("%v\n%s", r, trimStack(allStacks()))
				}
				close(done)
			}()
			inner(c)
		}()
		limit := time.Duration(atomic.LoadInt64(&watchdogLimitNs))
		for {
			select {
			case <-done:
			case <-time.After(limit):
				d1 := bsiGoroutines()
				time.Sleep(5 * time.Second)
				select {
				case <-done:
				default:
					d2 := bsiGoroutines()
					if d1 == d2 && d1 != "" && allParked(d1) {
						atomic.StoreInt64(&watchdogLimitNs, int64(4*time.Second))
						atomic.StoreInt64(&bsiDeadlockSeen, 1)
						c.Fail("BSI/deadlock", "a bit-sliced index call never returned (GOMAXPROCS=%d): all goroutines inside the index are parked with identical stacks in two dumps 5 s apart:\n%s", procs, d1)
						return
					}
					if d1 == "" && d2 == "" {
						continue // the workload is busy outside the index (model, harness): keep waiting
					}
					// not (yet) provably blocked: look again after another interval
					c.Count("bsi_watchdog_polls_without_confirmation")
					continue
				}
			}
			break
		}
		if pv != nil {
			c.Fail("harness/unexpected-panic", "panic escaped the BSI workload: %v", pv)
			return
		}
		if c.Failed() {
			return
		}
		// goroutines of the index still alive after every call returned (one witness per process: they stay for good)
		if atomic.LoadInt64(&leakWitnessed) != 0 {
			return
		}
		var leak string
		for i := 0; i < 2000; i++ {
			leak = bsiGoroutines()
			if leak == "" {
				break
			}
			time.Sleep(5 * time.Millisecond)
		}
		c.Eval(1)
		if leak != "" {
			atomic.StoreInt64(&leakWitnessed, 1)
			c.Fail("BSI/goroutine-leak", "goroutines of the bit-sliced index still alive 10 s after the calls returned (GOMAXPROCS=%d):\n%s", procs, firstLines(leak, 30))
		}
	}
}
