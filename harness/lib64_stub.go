package main

func pop64Run(c *Ctx) {}
