package main

import (
	"fmt"

	"github.com/RoaringBitmap/roaring/v2/roaring64"
)

func init() {
	register(&Property{
		ID: "C17", Level: "exploration", Builds: []string{"plain"},
		Rule:        "cases over roaring64 with buckets {0,1,2,0x7FFFFFFF,0x80000000,0xFFFFFFFE,0xFFFFFFFF} and random ones, values at 32-bit edges, ranges crossing one and several 2^32 boundaries (<= 3 full buckets per case), buckets that become empty: (a) mutation histories (Add/CheckedAdd/AddInt/AddMany/Remove/CheckedRemove/AddRange/RemoveRange/Flip/Clear/RunOptimize/copy-on-write toggles) with the stored content (decoded from the buckets' raw containers via the 64-bit hook) compared with an interval-set model over uint64 and Validate() after every step; (b) operand pairs x And/Or/Xor/AndNot static, in-place on a clone, in-place on a copy-on-write clone, same object on both sides, plus AndCardinality/OrCardinality/Intersects, static Flip, FastOr/FastAnd/ParOr; (c) queries Rank/Select/Minimum/Maximum/GetCardinality/Contains/Equals and the forward, reverse and batch iterators with PeekNext/AdvanceIfNeeded interleavings, Values/Backward. Plus ALL pairs of subsets of an 8-value 64-bit boundary domain. Non-trivial: non-empty bitmap(s); distinct = hash of the history / operands. Ranges may be empty or inverted; Equals is asked about different sets of equal cardinality; results of static operations (and of static Flip of a copy-on-write shared source) are written into and the inputs re-checked.",
		Assumptions: []string{"interval-set model validated by selfcheck (also at the top of the uint64 range)", "ranges are half-open [s,e) with e <= 2^64-1 (2^64 is not expressible in the API)"},
		Units: []Unit{
			{Name: "histories64", Quick: 1500, Thorough: 80000, Run: c17Histories},
			{Name: "algebra64", Quick: 1500, Thorough: 80000, Run: c17Algebra},
			{Name: "queries-iterators64", Quick: 1500, Thorough: 80000, Run: c17Queries},
			{Name: "exhaustive-subset-pairs64", ExhaustiveN: func(string) int { return 256 * 256 }, RunIndexed: c17Exh},
		},
	})
}

func validate64(c *Ctx, b *roaring64.Bitmap, when string) bool {
	_, problems := viewSet64(b)
	if len(problems) > 0 {
		c.Fail("64/invariant/"+problemClass(problems[0])+"/"+when, "64-bit bitmap breaks a representation invariant: %v", problems)
		return false
	}
	if err := b.Validate(); err != nil {
		c.Fail("64/validate/"+when, "Validate() = %v on a library-made 64-bit bitmap", err)
		return false
	}
	return true
}

func c17Histories(c *Ctx) {
	r := c.R
	bm := genBM64(c)
	c.Step("start form=%s set=%v", bm.Form, descSet(bm.M))
	if r.Chance(0.3) {
		bm.B.SetCopyOnWrite(true)
		c.Step("SetCopyOnWrite(true)")
	}
	full := r.Chance(0.06)
	h := bm.M.Hash()
	steps := 20 + r.Intn(80)
	var prev []*BM64
	for i := 0; i < steps && !c.Failed(); i++ {
		if r.Chance(0.04) {
			c.Step("Clone() and continue on the clone")
			cl := bm.B.Clone()
			prev = append(prev, &BM64{B: bm.B, M: bm.M.Clone()})
			bm.B = cl
		}
		op := mutateStep64(c, bm, full)
		if c.Failed() {
			break
		}
		c.Eval(1)
		if d := checkEq64(bm.B, bm.M); d != "" {
			c.Fail("64/"+op+"/content", "%s", d)
			break
		}
		if bm.B.IsEmpty() != bm.M.IsEmpty() {
			c.Fail("64/"+op+"/IsEmpty", "IsEmpty=%v model empty=%v", bm.B.IsEmpty(), bm.M.IsEmpty())
			break
		}
		if !validate64(c, bm.B, "after-"+op) {
			break
		}
		if i%8 == 7 || i == steps-1 {
			for _, p := range prev {
				if d := checkEq64(p.B, p.M); d != "" {
					c.Fail("64/"+op+"/earlier-clone-changed", "a 64-bit bitmap cloned earlier changed: %s", d)
				}
			}
		}
		h = mix(h, hashStr(c.hist[len(c.hist)-1]))
	}
	c.Distinct(h)
	c.Sample(map[string]any{"unit": "histories64", "case_seed": c.CaseSeed, "steps": firstN(c.hist, 12)})
}

func genPair64(r *Rng) (*ISet, *ISet) {
	a := genSet64(r, 3)
	var b *ISet
	switch r.Intn(4) {
	case 0: // same buckets, different content
		b = NewISet()
		for _, v := range a.iv {
			if r.Chance(0.5) {
				b.AddRange(v.Lo, v.Hi)
			}
			if r.Chance(0.5) {
				x := v.Lo&^max32 | edgeVal32(r, NewISet())
				b.AddRange(x, minU(x+r.Range(0, 500), x|max32))
			}
		}
	case 1: // near-equal
		b = a.Clone()
		for i := 0; i < 1+r.Intn(3); i++ {
			x := edgeVal64(r, a)
			if !b.Add(x) {
				b.Remove(x)
			}
		}
	default:
		b = genSet64(r, 3)
	}
	if r.Chance(0.5) {
		a, b = b, a
	}
	return a, b
}

// probeResult64 writes into every bucket of a freshly returned bitmap (one value toggled near each bucket's minimum and
// maximum) and then requires the given other bitmaps to hold their models: the result of a static operation is
// independent of its inputs - "the same contract as the 32-bit bitmap".
func probeResult64(c *Ctx, res *roaring64.Bitmap, want *ISet, sig string, others []*roaring64.Bitmap, models []*ISet) bool {
	r := c.R
	pm := &BM64{B: res, M: want.Clone()}
	seen := map[uint64]bool{}
	for _, v := range want.Intervals() {
		for _, x := range []uint64{v.Lo, v.Hi} {
			k := x >> 32
			if seen[k] || len(seen) >= 6 {
				continue
			}
			seen[k] = true
			y := k<<32 | r.Range(0, max32)
			c.Step("probe: result.Remove(%d); result.Add(%d)", x, y)
			if c.Guard(sig+"/probe", func() { res.Remove(x); res.Add(y) }) {
				return false
			}
			pm.M.Remove(x)
			pm.M.Add(y)
		}
	}
	if d := checkEq64(pm.B, pm.M); d != "" {
		c.Fail(sig+"/probe/result", "after writing into the result: %s", d)
		return false
	}
	for i, o := range others {
		if d := checkEq64(o, models[i]); d != "" {
			c.Fail(sig+"/probe/input-changed-by-a-write-to-the-result", "writing into the result changed input #%d: %s", i, d)
			return false
		}
	}
	c.Eval(int64(1 + len(others)))
	return true
}

func c17Algebra(c *Ctx) {
	r := c.R
	ma, mb := genPair64(r)
	fa, fb := forms64[r.Intn(len(forms64))], forms64[r.Intn(len(forms64))]
	A, ea := build64(r, ma, fa)
	B, eb := build64(r, mb, fb)
	c.Step("A form=%s set=%v", fa, descSet(ma))
	c.Step("B form=%s set=%v", fb, descSet(mb))
	if ea != "" || eb != "" {
		c.Fail("build64/"+fa+"/"+fb, "%s %s", ea, eb)
		return
	}
	if !ma.IsEmpty() && !mb.IsEmpty() {
		c.Distinct(mix(mix(ma.Hash(), mb.Hash()), hashStr(fa+fb)))
	}
	for _, op := range binOps {
		if c.Failed() {
			return
		}
		want := modelOp(op, ma, mb)
		ha, hb := storageHash64(A.B), storageHash64(B.B)
		intact := func(form string) bool {
			if storageHash64(A.B) != ha {
				c.Fail("64/"+op+"/"+form+"/left-operand-changed", "%s (%s) changed its left operand (content diff: %q)", op, form, checkEq64(A.B, ma))
				return false
			}
			if storageHash64(B.B) != hb {
				c.Fail("64/"+op+"/"+form+"/argument-changed", "%s (%s) changed its argument (content diff: %q)", op, form, checkEq64(B.B, mb))
				return false
			}
			return true
		}
		c.Step("static %s", op)
		var res *roaring64.Bitmap
		if c.Guard("64/"+op+"/static", func() { res = staticOp64(op, A.B, B.B) }) {
			return
		}
		if d := checkEq64(res, want); d != "" {
			c.Fail("64/"+op+"/static/result", "%s static: %s\n A=%s\n B=%s", op, d, ma, mb)
			return
		}
		if !validate64(c, res, op+"-static") || !intact("static") {
			return
		}
		if !probeResult64(c, res, want, "64/"+op+"/static", []*roaring64.Bitmap{A.B, B.B}, []*ISet{ma, mb}) {
			return
		}
		ha, hb = storageHash64(A.B), storageHash64(B.B)
		c.Step("in-place %s on Clone(A)", op)
		cl := A.B.Clone()
		if c.Guard("64/"+op+"/inplace", func() { inplaceOp64(op, cl, B.B) }) {
			return
		}
		if d := checkEq64(cl, want); d != "" {
			c.Fail("64/"+op+"/inplace/result", "%s in-place: %s\n A=%s\n B=%s", op, d, ma, mb)
			return
		}
		if !validate64(c, cl, op+"-inplace") || !intact("inplace") {
			return
		}
		c.Step("in-place %s on a copy-on-write clone of A", op)
		src := A.B.Clone()
		src.SetCopyOnWrite(true)
		cw := src.Clone()
		hs := storageHash64(src)
		if c.Guard("64/"+op+"/inplace-cow", func() { inplaceOp64(op, cw, B.B) }) {
			return
		}
		if d := checkEq64(cw, want); d != "" {
			c.Fail("64/"+op+"/inplace-cow/result", "%s in-place on a COW clone: %s", op, d)
			return
		}
		if storageHash64(src) != hs {
			c.Fail("64/"+op+"/inplace-cow/cow-source-changed", "in-place %s on a COW clone modified the bitmap it was cloned from", op)
			return
		}
		if !intact("inplace-cow") {
			return
		}
		// mutate the result, operands must stay intact
		pm := &BM64{B: cl, M: want.Clone()}
		for i := 0; i < 3 && !c.Failed(); i++ {
			mutateStep64(c, pm, false)
			if d := checkEq64(pm.B, pm.M); d != "" {
				c.Fail("64/"+op+"/inplace/then-mutate", "%s", d)
			}
		}
		if c.Failed() {
			return
		}
		// content (not representation: RunOptimize may legitimately re-encode shared buckets) must be intact
		if d := checkEq64(A.B, ma); d != "" {
			c.Fail("64/"+op+"/inplace-then-mutate/left-operand-changed", "mutating the result of in-place %s changed the left operand: %s", op, d)
			return
		}
		if d := checkEq64(B.B, mb); d != "" {
			c.Fail("64/"+op+"/inplace-then-mutate/argument-changed", "mutating the result of in-place %s changed the argument: %s", op, d)
			return
		}
		ha, hb = storageHash64(A.B), storageHash64(B.B)
		c.Eval(8)
		// same object
		wantSelf := modelOp(op, ma, ma)
		c.Step("%s with the same object on both sides", op)
		var rs *roaring64.Bitmap
		if c.Guard("64/"+op+"/self-static", func() { rs = staticOp64(op, A.B, A.B) }) {
			return
		}
		if d := checkEq64(rs, wantSelf); d != "" {
			c.Fail("64/"+op+"/self-static/result", "%s(x,x): %s", op, d)
			return
		}
		cs := A.B.Clone()
		if c.Guard("64/"+op+"/self-inplace", func() { inplaceOp64(op, cs, cs) }) {
			return
		}
		if d := checkEq64(cs, wantSelf); d != "" {
			c.Fail("64/"+op+"/self-inplace/result", "x.%s(x): %s", op, d)
			return
		}
		c.Eval(2)
	}
	// in-place operations between copy-on-write RELATIVES (receiver and argument share buckets by pointer), followed
	// by writes into every bucket of the receiver: the argument and the common origin must keep their models
	if !c.Failed() && !ma.IsEmpty() {
		for _, op := range binOps {
			org := A.B.Clone()
			org.SetCopyOnWrite(true)
			rcv, arg := org.Clone(), org.Clone()
			mr, mg := ma.Clone(), ma.Clone()
			for k := 0; k < r.Intn(3); k++ { // they may diverge a little
				x := edgeVal64(r, ma)
				if r.Chance(0.5) {
					rcv.Add(x)
					mr.Add(x)
				} else {
					arg.Remove(x)
					mg.Remove(x)
				}
			}
			c.Step("in-place %s between two copy-on-write clones of one origin", op)
			if c.Guard("64/"+op+"/inplace-relatives", func() { inplaceOp64(op, rcv, arg) }) {
				return
			}
			want := modelOp(op, mr, mg)
			if d := checkEq64(rcv, want); d != "" {
				c.Fail("64/"+op+"/inplace-relatives/result", "%s in place between copy-on-write relatives: %s", op, d)
				return
			}
			if !probeResult64(c, rcv, want, "64/"+op+"/inplace-relatives", []*roaring64.Bitmap{arg, org}, []*ISet{mg, ma}) {
				return
			}
		}
	}
	c.Guard("64/shortcuts", func() {
		and, or := ma.And(mb), ma.Or(mb)
		if g := A.B.AndCardinality(B.B); g != and.Card() {
			c.Fail("64/AndCardinality/value", "AndCardinality=%d want %d", g, and.Card())
		}
		if g := A.B.OrCardinality(B.B); g != or.Card() {
			c.Fail("64/OrCardinality/value", "OrCardinality=%d want %d", g, or.Card())
		}
		if g := A.B.Intersects(B.B); g != !and.IsEmpty() {
			c.Fail("64/Intersects/value", "Intersects=%v want %v", g, !and.IsEmpty())
		}
		c.Eval(3)
	})
	// static Flip
	if !c.Failed() {
		s, e := genRange64(r, ma, r.Chance(0.05))
		c.Step("static Flip(A,%d,%d)", s, e)
		h0 := storageHash64(A.B)
		var res *roaring64.Bitmap
		if c.Guard("64/Flip/static", func() {
			if e <= 1<<62 && r.Chance(0.3) {
				res = roaring64.FlipInt(A.B, int(s), int(e))
			} else {
				res = roaring64.Flip(A.B, s, e)
			}
		}) {
			return
		}
		want := ma.Clone()
		want.FlipRange(s, e-1)
		if d := checkEq64(res, want); d != "" {
			c.Fail("64/Flip/static/result", "Flip(A,%d,%d): %s\n A=%s", s, e, d, ma)
			return
		}
		if !validate64(c, res, "Flip-static") {
			return
		}
		if storageHash64(A.B) != h0 {
			c.Fail("64/Flip/static/operand-changed", "static Flip changed its operand")
			return
		}
		c.Eval(2)
		if !probeResult64(c, res, want, "64/Flip/static", []*roaring64.Bitmap{A.B}, []*ISet{ma}) {
			return
		}
		// the same on a source whose buckets are shared with a copy-on-write clone (per-bucket flags set)
		src := A.B.Clone()
		src.SetCopyOnWrite(true)
		sib := src.Clone()
		var res2 *roaring64.Bitmap
		c.Step("static Flip(S,%d,%d) where S shares its buckets with a copy-on-write clone", s, e)
		if c.Guard("64/Flip/static-cow-source", func() { res2 = roaring64.Flip(src, s, e) }) {
			return
		}
		if d := checkEq64(res2, want); d != "" {
			c.Fail("64/Flip/static-cow-source/result", "Flip(S,%d,%d): %s", s, e, d)
			return
		}
		if !probeResult64(c, res2, want, "64/Flip/static-cow-source", []*roaring64.Bitmap{src, sib}, []*ISet{ma, ma}) {
			return
		}
	}
	// aggregates
	if !c.Failed() {
		mc := genSet64(r, 2)
		if r.Chance(0.3) {
			// stretch the bucket range to both ends of the key space (many chunk specs for the parallel union)
			mc.Add(r.Range(0, 1000))
			mc.Add(maxU64 - r.Range(0, 1000))
		}
		C, es := build64(r, mc, forms64[r.Intn(len(forms64))])
		if es != "" {
			return
		}
		list := []*roaring64.Bitmap{A.B, B.B, C.B}
		models := []*ISet{ma, mb, mc}
		if r.Chance(0.3) {
			list = append(list, roaring64.New(), A.B)
			models = append(models, NewISet(), ma)
		}
		or, and := NewISet(), models[0].Clone()
		for _, m := range models {
			or = or.Or(m)
			and = and.And(m)
		}
		c.Step("FastOr / FastAnd / ParOr over %d bitmaps", len(list))
		c.Guard("64/aggregates", func() {
			if d := checkEq64(roaring64.FastOr(list...), or); d != "" {
				c.Fail("64/FastOr/result", "%s", d)
			}
			if d := checkEq64(roaring64.FastAnd(list...), and); d != "" {
				c.Fail("64/FastAnd/result", "%s", d)
			}
			for _, w := range []int{0, 1, 3, []int{2, 7, 33, 64}[r.Intn(4)]} {
				var res *roaring64.Bitmap
				// "always returns" is part of the contract: a confirmed blocked-forever state is a violation
				verdict, detail, pv := callWithWatchdog(func() { res = roaring64.ParOr(w, append([]*roaring64.Bitmap(nil), list...)...) })
				if verdict == "deadlock" {
					c.Fail("64/ParOr/deadlock", "roaring64.ParOr(workers=%d) never returned: all its goroutines are parked on channel operations:\n%s", w, detail)
					return
				}
				if verdict != "ok" {
					c.Note("ParOr watchdog fired without confirmation")
					return
				}
				if pv != nil {
					c.Fail("64/ParOr/panic", "roaring64.ParOr(workers=%d) panicked: %v", w, pv)
					return
				}
				if d := checkEq64(res, or); d != "" {
					c.Fail("64/ParOr/result", "ParOr(workers=%d): %s", w, d)
				}
				validate64(c, res, "ParOr")
			}
			c.Eval(5)
		})
	}
	c.Sample(map[string]any{"unit": "algebra64", "case_seed": c.CaseSeed, "formA": fa, "formB": fb, "A": descSet(ma), "B": descSet(mb)})
}

func c17Queries(c *Ctx) {
	r := c.R
	bm := genBM64(c)
	if r.Chance(0.03) {
		// more than 2^32 elements: one completely full bucket plus whatever was generated (ranks >= 2^32)
		m := bm.M.Clone()
		k := []uint64{0, 1, 2, 0x7FFFFFFF}[r.Intn(4)]
		m.AddRange(k<<32, k<<32|max32)
		if big, es := build64(r, m, "range"); es == "" {
			bm = big
			c.Count("queries_on_more_than_2^32_elements")
		}
	}
	b, m := bm.B, bm.M
	c.Step("bitmap form=%s set=%v", bm.Form, descSet(m))
	if !m.IsEmpty() {
		c.Distinct(mix(m.Hash(), hashStr(bm.Form)))
	}
	card := m.Card()
	h0 := storageHash64(b)
	c.Guard("64/query", func() {
		if b.GetCardinality() != card || b.IsEmpty() != (card == 0) {
			c.Fail("64/query/GetCardinality", "GetCardinality=%d IsEmpty=%v model card=%d", b.GetCardinality(), b.IsEmpty(), card)
		}
		if card > 0 {
			mn, _ := m.Min()
			mx, _ := m.Max()
			if b.Minimum() != mn || b.Maximum() != mx {
				c.Fail("64/query/MinMax", "Minimum=%d Maximum=%d want %d %d", b.Minimum(), b.Maximum(), mn, mx)
			}
		}
		var args []uint64
		for i := 0; i < 40; i++ {
			args = append(args, edgeVal64(r, m))
		}
		for _, x := range args {
			if b.Contains(x) != m.Contains(x) {
				c.Fail("64/query/Contains", "Contains(%d)=%v", x, b.Contains(x))
			}
			if x <= 1<<63-1 && b.ContainsInt(int(x)) != m.Contains(x) {
				c.Fail("64/query/ContainsInt", "ContainsInt(%d)=%v", x, b.ContainsInt(int(x)))
			}
			if g, w := b.Rank(x), m.Rank(x); g != w {
				c.Fail("64/query/Rank", "Rank(%d)=%d want %d (set %s)", x, g, w, m)
			}
			c.Eval(2)
		}
		sel := []uint64{0, 1, card - 1, card, card + 1, card / 2, max32, max32 + 1, maxU64}
		cum := uint64(0)
		for _, v := range m.iv {
			cum += v.Hi - v.Lo + 1
			if len(sel) < 40 {
				sel = append(sel, cum-1, cum)
			}
		}
		for _, i := range sel {
			g, err := b.Select(i)
			w, ok := m.Select(i)
			if ok != (err == nil) || (ok && g != w) {
				c.Fail("64/query/Select", "Select(%d)=(%d,%v) want (%d,ok=%v) card=%d", i, g, err, w, ok, card)
			}
			c.Eval(1)
		}
		// Equals
		o, es := build64(r, m, forms64[r.Intn(len(forms64))])
		if es == "" {
			if !b.Equals(o.B) || !o.B.Equals(b) {
				c.Fail("64/query/Equals/same-set", "Equals false for the same set in forms %s and %s", bm.Form, o.Form)
			}
			x := edgeVal64(r, m)
			pm := m.Clone()
			if !pm.Add(x) {
				pm.Remove(x)
			}
			o2, es2 := build64(r, pm, "addmany")
			if es2 == "" && (b.Equals(o2.B) || o2.B.Equals(b)) {
				c.Fail("64/query/Equals/different-set", "Equals true for sets differing in %d", x)
			}
			if qm, what := equalCardPerturbation(r, m, 0); qm != nil && card <= 1<<22 {
				for _, f3 := range []string{bm.Form, o.Form} {
					if o3, es3 := build64(r, qm, f3); es3 == "" {
						if b.Equals(o3.B) || o3.B.Equals(b) {
							c.Fail("64/query/Equals/different-set-same-cardinality", "Equals true for different sets of equal cardinality (%s; forms %s and %s)", what, bm.Form, f3)
						}
						c.Count("equals64_same_cardinality")
						c.Eval(2)
					}
				}
			}
		}
		if card <= 1<<17 {
			arr := b.ToArray()
			want := m.Values()
			if len(arr) != len(want) {
				c.Fail("64/query/ToArray", "ToArray has %d values, want %d", len(arr), len(want))
			} else {
				for i := range arr {
					if arr[i] != want[i] {
						c.Fail("64/query/ToArray", "ToArray[%d]=%d want %d", i, arr[i], want[i])
						break
					}
				}
			}
		}
	})
	if c.Failed() {
		return
	}
	// iterators
	drive64Iterator(c, b.Iterator(), m)
	c.Guard("64/ReverseIterator", func() {
		it := b.ReverseIterator()
		k := uint64(0)
		ivs := m.Intervals()
	outer:
		for i := len(ivs) - 1; i >= 0; i-- {
			for x := ivs[i].Hi; ; x-- {
				if k >= 50000 {
					break outer
				}
				if !it.HasNext() {
					c.Fail("64/ReverseIterator/HasNext", "HasNext=false after %d of %d", k, card)
					return
				}
				if g := it.Next(); g != x {
					c.Fail("64/ReverseIterator/Next", "Next=%d want %d", g, x)
					return
				}
				k++
				if x == ivs[i].Lo {
					break
				}
			}
		}
		if k == card && it.HasNext() {
			c.Fail("64/ReverseIterator/HasNext", "HasNext=true after all values")
		}
		c.Eval(int64(k))
	})
	c.Guard("64/ManyIterator", func() {
		it := b.ManyIterator()
		cur := newCursor(m)
		total := uint64(0)
		for calls := 0; calls < 200 && total < 200000; calls++ {
			n := manyLens[r.Intn(len(manyLens))]
			buf := make([]uint64, n)
			ret := it.NextMany(buf)
			if ret < 0 || ret > n {
				c.Fail("64/ManyIterator/return", "NextMany returned %d for a buffer of %d", ret, n)
				return
			}
			for i := 0; i < ret; i++ {
				w, ok := cur.next()
				if !ok || buf[i] != w {
					c.Fail("64/ManyIterator/value", "batch value %d = %d, want %d (ok=%v)", i, buf[i], w, ok)
					return
				}
			}
			total += uint64(ret)
			if ret == 0 && n > 0 {
				if total != card {
					c.Fail("64/ManyIterator/omission", "NextMany returned 0 after %d of %d values", total, card)
				}
				break
			}
		}
		c.Eval(int64(total) + 1)
	})
	c.Guard("64/Values-Backward", func() {
		k := uint64(0)
		for x := range roaring64.Values(b) {
			w, ok := m.Select(k)
			if !ok || x != w {
				c.Fail("64/Values/value", "Values yielded %d at %d, want %d", x, k, w)
				return
			}
			k++
			if k >= 3000 {
				break
			}
		}
		if k < 3000 && k != card {
			c.Fail("64/Values/count", "Values yielded %d values, cardinality %d", k, card)
		}
		k = 0
		for x := range roaring64.Backward(b) {
			w, ok := m.Select(card - 1 - k)
			if !ok || x != w {
				c.Fail("64/Backward/value", "Backward yielded %d at %d, want %d", x, k, w)
				return
			}
			k++
			if k >= 3000 {
				break
			}
		}
		if k < 3000 && k != card {
			c.Fail("64/Backward/count", "Backward yielded %d values, cardinality %d", k, card)
		}
		c.Eval(2)
	})
	if storageHash64(b) != h0 {
		c.Fail("64/query/modified-bitmap", "a read-only call changed the raw storage of the 64-bit bitmap")
	}
	c.Sample(map[string]any{"unit": "queries-iterators64", "case_seed": c.CaseSeed, "form": bm.Form, "set": descSet(m)})
}

func drive64Iterator(c *Ctx, it roaring64.IntPeekable64, m *ISet) {
	r := c.R
	name := "64/Iterator"
	c.Step("64-bit Iterator with random HasNext/Next/PeekNext/AdvanceIfNeeded")
	cur := uint64(0)
	done := false
	c.Guard(name, func() {
		for i := 0; i < 60+r.Intn(200) && !c.Failed(); i++ {
			nx, has := uint64(0), false
			if !done {
				nx, has = m.Next(cur)
			}
			act := r.Intn(10)
			switch {
			case act < 2:
				if g := it.HasNext(); g != has {
					c.Fail(name+"/HasNext", "HasNext=%v model=%v (cursor %d set %s)", g, has, cur, m)
				}
			case act < 6:
				if !has {
					continue
				}
				if g := it.Next(); g != nx {
					c.Fail(name+"/Next", "Next=%d want %d (cursor %d set %s)", g, nx, cur, m)
				}
				if nx == maxU64 {
					done = true
				} else {
					cur = nx + 1
				}
			case act < 8:
				if !has {
					continue
				}
				if g := it.PeekNext(); g != nx {
					c.Fail(name+"/PeekNext", "PeekNext=%d but Next would be %d", g, nx)
				}
			default:
				var t uint64
				switch r.Intn(6) {
				case 0:
					t = r.Range(0, cur)
				case 1:
					t = cur + r.Range(0, 100)
				case 2:
					t = (cur | max32) + 1 // next bucket start
				case 3:
					t = cur | max32
				default:
					t = edgeVal64(r, m)
				}
				if t < cur && r.Chance(0.5) {
					t = cur
				}
				c.Step("  AdvanceIfNeeded(%d) at cursor %d", t, cur)
				it.AdvanceIfNeeded(t)
				if t > cur {
					cur = t
				}
			}
			c.Eval(1)
		}
	})
}

var dom64 = []uint64{0, 65535, 65536, max32, max32 + 1, 2<<32 | 5, maxU64 - 1, maxU64}

func c17Exh(c *Ctx, index int) {
	ma, mb := subsetOf(dom64, index>>8), subsetOf(dom64, index&255)
	fa, fb := []string{"add", "opt", "stream"}[index%3], []string{"add", "opt", "stream"}[(index/3)%3]
	A, ea := build64(c.R, ma, fa)
	B, eb := build64(c.R, mb, fb)
	c.Step("A=%v (%s) B=%v (%s)", ma.Full(), fa, mb.Full(), fb)
	if ea != "" || eb != "" {
		c.Fail("build64/exh", "%s %s", ea, eb)
		return
	}
	for _, op := range binOps {
		want := modelOp(op, ma, mb)
		var res *roaring64.Bitmap
		if c.Guard("64/"+op+"/static", func() { res = staticOp64(op, A.B, B.B) }) {
			return
		}
		if d := checkEq64(res, want); d != "" {
			c.Fail("64/"+op+"/static/result/exh", "%s: %s", op, d)
		}
		cl := A.B.Clone()
		if c.Guard("64/"+op+"/inplace", func() { inplaceOp64(op, cl, B.B) }) {
			return
		}
		if d := checkEq64(cl, want); d != "" {
			c.Fail("64/"+op+"/inplace/result/exh", "%s: %s", op, d)
		}
		c.Eval(2)
	}
	for _, x := range dom64 {
		if A.B.Rank(x) != ma.Rank(x) || A.B.Contains(x) != ma.Contains(x) {
			c.Fail("64/query/exh", "Rank/Contains(%d) wrong for %v", x, ma.Full())
		}
	}
	if d := checkEq64(A.B, ma); d != "" {
		c.Fail("64/operand-changed/exh", "%s", d)
	}
	if d := checkEq64(B.B, mb); d != "" {
		c.Fail("64/operand-changed/exh", "%s", d)
	}
	c.Eval(10)
	if !ma.IsEmpty() && !mb.IsEmpty() {
		c.Distinct(uint64(index))
	}
	_ = fmt.Sprint
}
