package main

import (
	"fmt"
	"math/big"
	"sort"

	"github.com/RoaringBitmap/roaring/v2"
	bsi32 "github.com/RoaringBitmap/roaring/v2/BitSliceIndexing"
	"github.com/RoaringBitmap/roaring/v2/roaring64"
)

func init() {
	register(&Property{
		ID: "C20", Level: "exploration", Builds: []string{"plain", "race"},
		Rule:        "cases = stored maps {mixed signs, duplicate values, width extremes, single column, small/large; big values +-2^100 on the 64-bit index so that both comparison implementations (plane algebra for <= 63 planes, per-column scan above) are forced} on both BSI implementations, auto-sized and fixed-width, optionally run-optimized; queries: CompareValue / CompareBigValue with LT, LE, EQ, GE, GT, RANGE x constants within the index's representable range (every stored value and its neighbours, range ends, 0, -1) x found-sets {nil, all columns, random subset, singleton, the index's own existence bitmap} x workers {0,1,2,5,16}; CompareBSI against a second index; BatchEqual / BatchEqualBig / BatchEqualValues (value lists with stored, absent and duplicate values; sub-cube shaped lists for the cube shortcut; one 100000-column index with >= 128 scattered values for the 32-bit parallel scan); MinMax / MinMaxBig over non-empty found-sets; Sum / SumBigValues; Transpose / IntersectAndTranspose / TransposeWithCounts when all values are valid column ids. Oracle = the predicate evaluated on each stored value of the model. Every returned bitmap is then mutated and the query repeated (independence), and the index re-read. The same unit runs under the race detector. Non-trivial: >= 2 stored columns; distinct = hash(map, implementation, options). Empty indexes, empty value lists, RANGE with start > end and complete value cubes of narrow indexes are included; every BatchEqual result is mutated by the caller and the query repeated; the big parallel-scan indexes hold both signs in three quarters of the cases.",
		Assumptions: []string{"comparison constants lie within the index's range (32-bit index without negative values: [0, 2^BitCount); with negative values: int64; 64-bit index: [min,max] or the two's-complement range of its planes)", "found-sets contain existing columns only", "MinMax on an empty set returns a sentinel and is out of scope", "roaring64 TransposeWithCounts filters on VALUES and defaults the filter to the existence bitmap; an explicit filter is always passed"},
		Units: []Unit{
			{Name: "queries@plain,race", Quick: 8000, Thorough: 300000, Run: c20Queries},
			{Name: "parallel-scan-32@plain", Quick: 4, Thorough: 60, Run: c20ParallelScan, Serial: true},
		},
	})
}

type foundSet struct {
	name  string
	cols  []uint64 // nil means "pass nil"
	isNil bool
	alias bool
}

func genFoundSets(r *Rng, m bsiModel) []foundSet {
	all := m.cols()
	fs := []foundSet{{name: "nil", cols: all, isNil: true}, {name: "all", cols: all}, {name: "own-existence-bitmap", cols: all, alias: true}}
	if len(all) > 0 {
		fs = append(fs, foundSet{name: "singleton", cols: []uint64{all[r.Intn(len(all))]}})
		var sub []uint64
		for _, k := range all {
			if r.Chance(0.5) {
				sub = append(sub, k)
			}
		}
		fs = append(fs, foundSet{name: "subset", cols: sub})
	}
	return fs
}

func (x *bsiX) fs32(f foundSet) *roaring.Bitmap {
	if f.isNil {
		return nil
	}
	if f.alias {
		return x.b32.GetExistenceBitmap()
	}
	return bm32(f.cols)
}

func (x *bsiX) fs64(f foundSet) *roaring64.Bitmap {
	if f.isNil {
		return nil
	}
	if f.alias {
		return x.b64.GetExistenceBitmap()
	}
	return bm64(f.cols)
}

func cols32(b *roaring.Bitmap) []uint64 {
	var out []uint64
	for _, v := range b.ToArray() {
		out = append(out, uint64(v))
	}
	return out
}

func equalCols(a, b []uint64) bool {
	if len(a) != len(b) {
		return false
	}
	for i := range a {
		if a[i] != b[i] {
			return false
		}
	}
	return true
}

var opNames = map[int]string{1: "LT", 2: "LE", 3: "EQ", 4: "GE", 5: "GT", 6: "RANGE"}

func evalOp(op int, v, a, b *big.Int) bool {
	switch op {
	case 1:
		return v.Cmp(a) < 0
	case 2:
		return v.Cmp(a) <= 0
	case 3:
		return v.Cmp(a) == 0
	case 4:
		return v.Cmp(a) >= 0
	case 5:
		return v.Cmp(a) > 0
	}
	return v.Cmp(a) >= 0 && v.Cmp(b) <= 0
}

// buildQueryIndex builds an index and its model.
func buildQueryIndex(c *Ctx) *bsiCase {
	r := c.R
	bc := newBSICase(r)
	shape := []string{"mixed", "mixed", "nonneg", "nonneg-small", "single", "duplicates", "extremes", "big"}[r.Intn(8)]
	if bc.fixed && (shape == "big" || shape == "extremes") {
		shape = "mixed"
	}
	n := 2 + r.Intn(24)
	if r.Chance(0.04) {
		shape = "empty" // a stored map without any column (the statement's "empty")
		n = 0
	}
	lo, hi := bc.lo, bc.hi
	switch shape {
	case "nonneg":
		lo = maxI64(lo, 0)
	case "nonneg-small":
		lo, hi = maxI64(lo, 0), minI64(hi, 300)
	case "single":
		n = 1
	}
	if lo > hi {
		lo, hi = bc.lo, bc.hi
	}
	dup := genVal(r, lo, hi)
	for i := 0; i < n; i++ {
		col := genCol(r, bc.is64)
		var v *big.Int
		switch {
		case shape == "duplicates" && r.Chance(0.6):
			v = big.NewInt(dup)
		case shape == "big" && bc.is64 && r.Chance(0.5):
			v = new(big.Int).Lsh(big.NewInt(1), uint(64+r.Intn(40)))
			v.Add(v, big.NewInt(int64(r.Intn(100))))
			if r.Chance(0.5) {
				v.Neg(v)
			}
		case shape == "extremes":
			v = big.NewInt([]int64{1<<63 - 1, -1 << 63, 0, -1, 1, 1<<62 - 1, -(1 << 62)}[r.Intn(7)])
		default:
			v = big.NewInt(genVal(r, lo, hi))
		}
		if bc.is64 && !v.IsInt64() {
			bc.x.b64.SetBigValue(col, v)
		} else {
			bc.x.setValue(col, v.Int64())
		}
		bc.m[col] = v
	}
	// the stored map may be the outcome of a build HISTORY, not only of one SetValue per column: a bulk load of another
	// index on disjoint columns into this one (wider or narrower than it), or a wipe through the index's own existence
	// bitmap followed by a refill of the same columns
	hist := ""
	if shape != "empty" && shape != "big" && r.Chance(0.3) {
		if !bc.fixed && r.Chance(0.6) {
			o := newBSIX(bc.is64, 0, 0)
			mag := []int64{3, 255, 1 << 20, 1 << 40, 1<<62 - 1}[r.Intn(5)]
			olo, ohi := -mag, mag
			if shape == "nonneg" || shape == "nonneg-small" || r.Chance(0.4) {
				olo = 0
			}
			added := 0
			for i := 0; i < 1+r.Intn(6); i++ {
				col := genCol(r, bc.is64)
				if _, used := bc.m[col]; used {
					continue
				}
				v := genVal(r, olo, ohi)
				o.setValue(col, v)
				bc.m[col] = big.NewInt(v)
				added++
			}
			if added > 0 {
				w := []int{0, 1, 2, 4}[r.Intn(4)]
				hist = fmt.Sprintf("then ParOr(workers=%d) of an index with BitCount=%d into this one (BitCount=%d)", w, o.bitCount(), bc.x.bitCount())
				bc.x.parOr(w, o)
			}
		} else {
			bc.x.clearValues(nil, true)
			for _, col := range bc.m.cols() {
				v := genVal(r, lo, hi)
				bc.x.setValue(col, v)
				bc.m[col] = big.NewInt(v)
			}
			hist = "then ClearValues(own existence bitmap) and a refill of the same columns"
		}
		c.Count("index_built_by_a_history")
	}
	if r.Chance(0.3) {
		if bc.is64 {
			bc.x.b64.RunOptimize()
		} else {
			bc.x.b32.RunOptimize()
		}
	}
	if hist != "" {
		c.Step("build history: %s", hist)
	}
	c.Step("%s fixed=%v range=[%d,%d] shape=%s BitCount=%d map=%s", bc.x.name(), bc.fixed, bc.lo, bc.hi, shape, bc.x.bitCount(), bc.m)
	c.Count("index_" + bc.x.name() + "_" + shape)
	return bc
}

// constRange returns the representable range for comparison constants.
func constRange(bc *bsiCase) (*big.Int, *big.Int) {
	if bc.fixed {
		return big.NewInt(bc.lo), big.NewInt(bc.hi)
	}
	bcnt := bc.x.bitCount()
	if bc.is64 {
		lo := new(big.Int).Neg(new(big.Int).Lsh(big.NewInt(1), uint(bcnt)))
		hi := new(big.Int).Sub(new(big.Int).Lsh(big.NewInt(1), uint(bcnt)), big.NewInt(1))
		return lo, hi
	}
	if bcnt >= 64 {
		return big.NewInt(-1 << 63), big.NewInt(1<<63 - 1)
	}
	return big.NewInt(0), new(big.Int).Sub(new(big.Int).Lsh(big.NewInt(1), uint(bcnt)), big.NewInt(1))
}

func genConsts(r *Rng, bc *bsiCase) []*big.Int {
	lo, hi := constRange(bc)
	var out []*big.Int
	add := func(v *big.Int) {
		if v.Cmp(lo) >= 0 && v.Cmp(hi) <= 0 {
			out = append(out, v)
		}
	}
	add(big.NewInt(0))
	add(big.NewInt(-1))
	add(lo)
	add(hi)
	for _, v := range bc.m {
		add(v)
		add(new(big.Int).Add(v, big.NewInt(1)))
		add(new(big.Int).Sub(v, big.NewInt(1)))
	}
	if len(out) == 0 {
		out = append(out, lo)
	}
	sort.Slice(out, func(i, j int) bool { return out[i].Cmp(out[j]) < 0 })
	return out
}

func c20Queries(c *Ctx) {
	r := c.R
	bc := buildQueryIndex(c)
	c20QueryBattery(c, bc)
	if c.Failed() || !r.Chance(0.35) {
		return
	}
	// the SAME index is updated and queried again: whatever a query path remembers between calls (sizes, caches, shared
	// results) must follow the update
	x := bc.x
	switch k := r.Intn(3); {
	case k == 0 && !bc.fixed && !bc.m.hasNegative() && len(bc.m) > 0:
		o := newBSIX(bc.is64, 0, 0)
		add := bsiModel{}
		for i := 0; i < 1+r.Intn(5); i++ {
			col := genCol(r, bc.is64)
			v := genVal(r, 0, 1<<20)
			o.setValue(col, v)
			add[col] = big.NewInt(v)
		}
		big40 := false
		for _, v := range bc.m {
			if v.BitLen() > 40 {
				big40 = true
			}
		}
		if big40 {
			return
		}
		c.Step("update between two query rounds: Add(index holding %s)", add)
		if c.Guard(x.name()+"/Add", func() { x.add(o) }) {
			return
		}
		for col, v := range add {
			if cur, ok := bc.m[col]; ok {
				bc.m[col] = new(big.Int).Add(cur, v)
			} else {
				bc.m[col] = v
			}
		}
	case k == 1:
		for i := 0; i < 1+r.Intn(4); i++ {
			col, v := genCol(r, bc.is64), genVal(r, bc.lo, bc.hi)
			if bc.zeros {
				v = 0
			}
			c.Step("update between two query rounds: SetValue(%d,%d)", col, v)
			if c.Guard(x.name()+"/SetValue", func() { x.setValue(col, v) }) {
				return
			}
			bc.m[col] = big.NewInt(v)
		}
	default:
		cols := bc.m.cols()
		var drop []uint64
		for _, col := range cols {
			if r.Chance(0.4) {
				drop = append(drop, col)
			}
		}
		c.Step("update between two query rounds: ClearValues(%v)", drop)
		if c.Guard(x.name()+"/ClearValues", func() { x.clearValues(drop, false) }) {
			return
		}
		for _, col := range drop {
			delete(bc.m, col)
		}
	}
	c.Count("second_query_round_after_an_update")
	c20QueryBattery(c, bc)
}

func c20QueryBattery(c *Ctx, bc *bsiCase) {
	r := c.R
	x, m := bc.x, bc.m
	if !checkBSI(c, x, m, x.name()+"/build", nil) {
		return
	}
	if len(m) >= 2 {
		c.Distinct(mix(hashStr(m.String()), hashStr(fmt.Sprint(x.name(), bc.fixed, x.bitCount()))))
	}
	neg := ""
	if m.hasNegative() {
		neg = "/index-holds-negative-values"
	}
	consts := genConsts(r, bc)
	founds := genFoundSets(r, m)
	workers := []int{0, 1, 2, 5, 16}
	// ---- CompareValue / CompareBigValue
	for q := 0; q < 14 && !c.Failed(); q++ {
		op := 1 + r.Intn(6)
		a := consts[r.Intn(len(consts))]
		b := consts[r.Intn(len(consts))]
		if a.Cmp(b) > 0 {
			a, b = b, a
		}
		if op == 6 && r.Chance(0.08) && a.Cmp(b) != 0 {
			a, b = b, a // an empty range: the predicate start <= v <= end holds for no value
			c.Count("query_RANGE_with_start_greater_than_end")
		}
		f := founds[r.Intn(len(founds))]
		w := workers[r.Intn(len(workers))]
		var want []uint64
		for _, col := range f.cols {
			if evalOp(op, m[col], a, b) {
				want = append(want, col)
			}
		}
		useBig := bc.is64 && (r.Chance(0.4) || !a.IsInt64() || !b.IsInt64())
		api := "CompareValue"
		if useBig {
			api = "CompareBigValue"
		}
		if !bc.is64 && (!a.IsInt64() || !b.IsInt64()) {
			continue
		}
		path := ""
		if bc.is64 {
			if x.bitCount() > 63 {
				path = "/per-column-scan"
			} else {
				path = "/plane-algebra"
			}
		}
		sig := fmt.Sprintf("%s/%s/op=%s%s%s", x.name(), api, opNames[op], neg, path)
		c.Step("%s(workers=%d, %s, %s, %s, found=%s)", api, w, opNames[op], a, b, f.name)
		c.Count("query_" + x.name() + "_" + api + "_" + opNames[op])
		c.Count("foundset_" + f.name)
		var got []uint64
		run := func() []uint64 {
			if bc.is64 {
				var res *roaring64.Bitmap
				if useBig {
					res = x.b64.CompareBigValue(w, roaring64.Operation(op), a, b, x.fs64(f))
				} else {
					res = x.b64.CompareValue(w, roaring64.Operation(op), a.Int64(), b.Int64(), x.fs64(f))
				}
				out := res.ToArray()
				// independence: mutate the returned bitmap
				res.Add(12345678901)
				if len(out) > 0 {
					res.Remove(out[0])
				}
				return out
			}
			res := x.b32.CompareValue(w, bsi32.Operation(op), a.Int64(), b.Int64(), x.fs32(f))
			out := cols32(res)
			res.Add(123456789)
			if len(out) > 0 {
				res.Remove(uint32(out[0]))
			}
			return out
		}
		if c.Guard(sig, func() { got = run() }) {
			return
		}
		c.Eval(1)
		if !equalCols(got, want) {
			c.Fail(sig+"/columns", "%s(%s, %s, %s, found=%s %v, workers=%d) returned %v, the predicate on the stored values gives %v; map=%s", api, opNames[op], a, b, f.name, f.cols, w, got, want, m)
			return
		}
		// repeat: same answer although the previous result was mutated
		var again []uint64
		if c.Guard(sig, func() { again = run() }) {
			return
		}
		if !equalCols(again, want) {
			c.Fail(sig+"/result-not-independent", "repeating %s after mutating the returned bitmap gives %v, want %v", api, again, want)
			return
		}
	}
	if c.Failed() || !checkBSI(c, x, m, x.name()+"/index-changed-by-query", nil) {
		return
	}
	// ---- MinMax
	for q := 0; q < 4 && !c.Failed() && len(m) > 0; q++ {
		f := founds[r.Intn(len(founds))]
		if len(f.cols) == 0 {
			continue
		}
		w := workers[r.Intn(len(workers))]
		mn, mx := m[f.cols[0]], m[f.cols[0]]
		for _, col := range f.cols {
			if m[col].Cmp(mn) < 0 {
				mn = m[col]
			}
			if m[col].Cmp(mx) > 0 {
				mx = m[col]
			}
		}
		sig := x.name() + "/MinMax" + neg
		c.Step("MinMax(workers=%d, found=%s)", w, f.name)
		c.Guard(sig, func() {
			var gmn, gmx *big.Int
			if bc.is64 {
				gmn = x.b64.MinMaxBig(w, roaring64.MIN, x.fs64(f))
				gmx = x.b64.MinMaxBig(w, roaring64.MAX, x.fs64(f))
				if mn.IsInt64() && mx.IsInt64() {
					if g := x.b64.MinMax(w, roaring64.MIN, x.fs64(f)); g != mn.Int64() {
						c.Fail(sig+"/MIN", "MinMax(MIN, found=%s)=%d want %s; map=%s", f.name, g, mn, m)
					}
				}
			} else {
				gmn = big.NewInt(x.b32.MinMax(w, bsi32.MIN, x.fs32(f)))
				gmx = big.NewInt(x.b32.MinMax(w, bsi32.MAX, x.fs32(f)))
			}
			if gmn.Cmp(mn) != 0 {
				c.Fail(sig+"/MIN", "MinMax(MIN, found=%s %v, workers=%d)=%s want %s; map=%s", f.name, f.cols, w, gmn, mn, m)
			}
			if gmx.Cmp(mx) != 0 {
				c.Fail(sig+"/MAX", "MinMax(MAX, found=%s %v, workers=%d)=%s want %s; map=%s", f.name, f.cols, w, gmx, mx, m)
			}
			c.Eval(2)
		})
	}
	// ---- Sum
	for q := 0; q < 3 && !c.Failed(); q++ {
		f := founds[r.Intn(len(founds))]
		sum := new(big.Int)
		for _, col := range f.cols {
			sum.Add(sum, m[col])
		}
		sig := x.name() + "/Sum" + neg
		c.Step("Sum(found=%s)", f.name)
		c.Guard(sig, func() {
			if bc.is64 {
				g, cnt := x.b64.SumBigValues(x.fs64(f))
				if g.Cmp(sum) != 0 || cnt != uint64(len(f.cols)) {
					c.Fail(sig+"/SumBigValues", "SumBigValues(found=%s)=(%s,%d) want (%s,%d); BitCount=%d map=%s", f.name, g, cnt, sum, len(f.cols), x.bitCount(), m)
				}
				if sum.IsInt64() {
					if gs, _ := x.b64.Sum(x.fs64(f)); gs != sum.Int64() {
						c.Fail(sig+"/Sum", "Sum(found=%s)=%d want %s", f.name, gs, sum)
					}
				}
			} else if sum.IsInt64() {
				// the 32-bit index adds popcount<<plane in wrapping int64 arithmetic, which is exact modulo 2^64
				g, cnt := x.b32.Sum(x.fs32(f))
				if g != sum.Int64() || cnt != uint64(len(f.cols)) {
					c.Fail(sig+"/Sum", "Sum(found=%s)=(%d,%d) want (%s,%d); BitCount=%d map=%s", f.name, g, cnt, sum, len(f.cols), x.bitCount(), m)
				}
			}
			c.Eval(1)
		})
	}
	// ---- BatchEqual family
	for q := 0; q < 4 && !c.Failed(); q++ {
		var vals []*big.Int
		lo, hi := constRange(bc)
		for i := 0; i < 1+r.Intn(8); i++ {
			v := consts[r.Intn(len(consts))]
			vals = append(vals, v)
		}
		if r.Chance(0.04) {
			vals = nil // an empty value list matches nothing
			c.Count("batchequal_empty_value_list")
		}
		if span := new(big.Int).Sub(hi, lo); span.IsInt64() && span.Int64() < 2048 && r.Chance(0.35) {
			// every representable value of a narrow index (the complete cube), or all but one
			vals = nil
			skip := int64(-1)
			if r.Chance(0.4) {
				skip = r.Int63n(span.Int64() + 1)
			}
			for k := int64(0); k <= span.Int64(); k++ {
				if k != skip {
					vals = append(vals, new(big.Int).Add(lo, big.NewInt(k)))
				}
			}
			r.Shuffle(len(vals), func(i, j int) { vals[i], vals[j] = vals[j], vals[i] })
			c.Count("batchequal_complete_cube_of_a_narrow_index")
		}
		if r.Chance(0.3) {
			// sub-cube: all combinations of 2-3 free low bits around a stored value
			base := consts[r.Intn(len(consts))]
			if base.IsInt64() {
				for k := int64(0); k < 8; k++ {
					v := big.NewInt(base.Int64()&^7 | k)
					if v.Cmp(lo) >= 0 && v.Cmp(hi) <= 0 {
						vals = append(vals, v)
					}
				}
			}
		}
		in := map[string]bool{}
		allInt := true
		for _, v := range vals {
			in[v.String()] = true
			if !v.IsInt64() {
				allInt = false
			}
		}
		var want []uint64
		for _, col := range m.cols() {
			if in[m[col].String()] {
				want = append(want, col)
			}
		}
		w := workers[r.Intn(len(workers))]
		sig := x.name() + "/BatchEqual" + neg
		c.Step("BatchEqual(workers=%d, %v)", w, vals)
		c.Guard(sig, func() {
			if bc.is64 {
				resB := x.b64.BatchEqualBig(w, vals)
				got := resB.ToArray()
				if !equalCols(got, want) {
					c.Fail(sig+"/BatchEqualBig", "BatchEqualBig(%v) returned %v want %v; map=%s", vals, got, want, m)
					return
				}
				// the returned bitmap belongs to the caller
				resB.Add(12345678901)
				if len(got) > 0 {
					resB.Remove(got[0])
				}
				if again := x.b64.BatchEqualBig(w, vals).ToArray(); !equalCols(again, want) {
					c.Fail(sig+"/BatchEqualBig/result-not-independent", "repeating BatchEqualBig after mutating its result gives %v want %v", again, want)
					return
				}
				if allInt {
					iv := make([]int64, len(vals))
					for i, v := range vals {
						iv[i] = v.Int64()
					}
					res := x.b64.BatchEqual(w, iv)
					got := res.ToArray()
					if !equalCols(got, want) {
						c.Fail(sig+"/BatchEqual", "BatchEqual(%v) returned %v want %v; map=%s", iv, got, want, m)
						return
					}
					res.Add(12345678901)
					if len(got) > 0 {
						res.Remove(got[0])
					}
					if again := x.b64.BatchEqual(w, iv).ToArray(); !equalCols(again, want) {
						c.Fail(sig+"/BatchEqual/result-not-independent", "repeating BatchEqual after mutating its result gives %v want %v", again, want)
						return
					}
					f := founds[r.Intn(len(founds))]
					inF := map[uint64]bool{}
					for _, k := range f.cols {
						inF[k] = true
					}
					pairs := x.b64.BatchEqualValues(w, iv, x.fs64(f))
					gotP := map[uint64]int64{}
					for _, p := range pairs {
						if _, dupl := gotP[p.ColumnID]; dupl {
							c.Fail(sig+"/BatchEqualValues", "BatchEqualValues returned column %d twice", p.ColumnID)
							return
						}
						gotP[p.ColumnID] = p.Value
					}
					nw := 0
					for _, col := range want {
						if !inF[col] {
							continue
						}
						nw++
						if gv, ok := gotP[col]; !ok || gv != m[col].Int64() {
							c.Fail(sig+"/BatchEqualValues", "BatchEqualValues(found=%s) misses or mis-values column %d: got (%d,%v) want %s; map=%s", f.name, col, gv, ok, m[col], m)
							return
						}
					}
					if nw != len(gotP) {
						c.Fail(sig+"/BatchEqualValues", "BatchEqualValues(found=%s) returned %d pairs, want %d (%v)", f.name, len(gotP), nw, gotP)
						return
					}
				}
			} else if allInt {
				iv := make([]int64, len(vals))
				for i, v := range vals {
					iv[i] = v.Int64()
				}
				res := x.b32.BatchEqual(w, iv)
				got := cols32(res)
				if !equalCols(got, want) {
					c.Fail(sig+"/BatchEqual", "BatchEqual(%v) returned %v want %v; map=%s", iv, got, want, m)
					return
				}
				res.Add(99)
				if len(got) > 0 {
					res.Remove(uint32(got[0]))
				}
				if got2 := cols32(x.b32.BatchEqual(w, iv)); !equalCols(got2, want) {
					c.Fail(sig+"/BatchEqual/result-not-independent", "repeating BatchEqual after mutating its result gives %v want %v", got2, want)
				}
			}
			c.Eval(2)
		})
	}
	if c.Failed() || !checkBSI(c, x, m, x.name()+"/index-changed-by-BatchEqual-result-mutation", nil) {
		return
	}
	// ---- CompareBSI (64-bit)
	if bc.is64 && !c.Failed() {
		o := newBSIX(true, 0, 0)
		om := bsiModel{}
		for _, col := range m.cols() {
			if r.Chance(0.7) {
				var v *big.Int
				switch r.Intn(3) {
				case 0:
					v = new(big.Int).Set(m[col])
				case 1:
					v = new(big.Int).Add(m[col], big.NewInt(int64(r.Intn(5))-2))
				default:
					v = big.NewInt(genVal(r, -1<<40, 1<<40))
				}
				o.b64.SetBigValue(col, v)
				om[col] = v
			}
		}
		o.b64.SetValue(genCol(r, true)^0x5555, 3)
		for q := 0; q < 5; q++ {
			op := 1 + r.Intn(5)
			f := founds[r.Intn(len(founds))]
			var want []uint64
			for _, col := range f.cols {
				if ov, ok := om[col]; ok && evalOp(op, m[col], ov, ov) {
					want = append(want, col)
				}
			}
			sig := "BSI64/CompareBSI/op=" + opNames[op] + neg
			c.Step("CompareBSI(%s, other=%s, found=%s)", opNames[op], om, f.name)
			c.Guard(sig, func() {
				res := x.b64.CompareBSI(roaring64.Operation(op), o.b64, x.fs64(f))
				got := res.ToArray()
				if !equalCols(got, want) {
					c.Fail(sig+"/columns", "CompareBSI(%s, found=%s %v) returned %v want %v; left=%s right=%s", opNames[op], f.name, f.cols, got, want, m, om)
				}
				c.Eval(1)
			})
			if c.Failed() {
				return
			}
		}
	}
	// ---- Transpose family: values must be valid column ids
	validIDs := len(m) > 0
	for _, v := range m {
		if v.Sign() < 0 || (!bc.is64 && v.BitLen() > 32) || (bc.is64 && v.BitLen() > 63) {
			validIDs = false
		}
	}
	if validIDs && !c.Failed() {
		f := founds[r.Intn(len(founds))]
		w := workers[r.Intn(len(workers))]
		hist := map[uint64]int64{}
		for _, col := range f.cols {
			hist[m[col].Uint64()]++
		}
		var wantVals []uint64
		for v := range hist {
			wantVals = append(wantVals, v)
		}
		sort.Slice(wantVals, func(i, j int) bool { return wantVals[i] < wantVals[j] })
		sig := x.name() + "/Transpose"
		c.Step("IntersectAndTranspose / TransposeWithCounts(workers=%d, found=%s)", w, f.name)
		c.Guard(sig, func() {
			if bc.is64 {
				got := x.b64.IntersectAndTranspose(w, x.fs64(f)).ToArray()
				if !equalCols(got, wantVals) {
					c.Fail(sig+"/IntersectAndTranspose", "IntersectAndTranspose(found=%s) returned %v want %v; map=%s", f.name, got, wantVals, m)
					return
				}
				if f.name == "all" {
					if g := x.b64.Transpose().ToArray(); !equalCols(g, wantVals) {
						c.Fail(sig+"/Transpose", "Transpose returned %v want %v", g, wantVals)
						return
					}
				}
				// explicit filter over the values: everything, or a subset
				filt := wantVals
				if r.Chance(0.5) {
					filt = nil
					for _, v := range wantVals {
						if r.Chance(0.6) {
							filt = append(filt, v)
						}
					}
					filt = append(filt, 987654321)
				}
				inF := map[uint64]bool{}
				for _, v := range filt {
					inF[v] = true
				}
				tw := x.b64.TransposeWithCounts(w, x.fs64(f), bm64(filt))
				for _, v := range wantVals {
					g, ok := tw.GetValue(v)
					if inF[v] != ok || (ok && g != hist[v]) {
						c.Fail(sig+"/TransposeWithCounts", "TransposeWithCounts(found=%s, filter=%v): value %d has count (%d,%v), want %d (in filter=%v); map=%s", f.name, filt, v, g, ok, hist[v], inF[v], m)
						return
					}
				}
				nw := 0
				for _, v := range wantVals {
					if inF[v] {
						nw++
					}
				}
				if tw.GetCardinality() != uint64(nw) {
					c.Fail(sig+"/TransposeWithCounts", "TransposeWithCounts holds %d values, want %d", tw.GetCardinality(), nw)
				}
			} else {
				got := cols32(x.b32.IntersectAndTranspose(w, x.fs32(f)))
				if !equalCols(got, wantVals) {
					c.Fail(sig+"/IntersectAndTranspose", "IntersectAndTranspose(found=%s) returned %v want %v; map=%s", f.name, got, wantVals, m)
					return
				}
				if f.name == "all" {
					if g := cols32(x.b32.Transpose()); !equalCols(g, wantVals) {
						c.Fail(sig+"/Transpose", "Transpose returned %v want %v", g, wantVals)
						return
					}
				}
				tw := x.b32.TransposeWithCounts(w, x.fs32(f))
				for _, v := range wantVals {
					g, ok := tw.GetValue(v)
					if !ok || g != hist[v] {
						c.Fail(sig+"/TransposeWithCounts", "TransposeWithCounts(found=%s): value %d has count (%d,%v), want %d; map=%s", f.name, v, g, ok, hist[v], m)
						return
					}
				}
				if tw.GetCardinality() != uint64(len(wantVals)) {
					c.Fail(sig+"/TransposeWithCounts", "TransposeWithCounts holds %d values, want %d", tw.GetCardinality(), len(wantVals))
				}
			}
			c.Eval(3)
		})
	}
	if !c.Failed() {
		checkBSI(c, x, m, x.name()+"/index-changed-by-query", nil)
	}
	c.Sample(map[string]any{"unit": "queries", "case_seed": c.CaseSeed, "index": x.name(), "map": m.String()})
}

// c20ParallelScan: the 32-bit BatchEqual switches to a goroutine scan for >= 128 scattered
// values on an index with >= 100000 columns.
func c20ParallelScan(c *Ctx) {
	r := c.R
	x := bsi32.NewDefaultBSI()
	const N = 100500
	// three quarters of the indexes hold values of both signs (64 planes), the others non-negative values only
	mixed := r.Chance(0.75)
	gen := func(extra int) int64 {
		v := int64(r.Intn(4000+extra)) * 977
		if mixed {
			v = int64(r.Intn(4000+extra)-2000-extra/2) * 977
		}
		return v
	}
	vals := make([]int64, N)
	groups := map[int64]*roaring.Bitmap{}
	for i := 0; i < N; i++ {
		v := gen(0)
		vals[i] = v
		if groups[v] == nil {
			groups[v] = roaring.New()
		}
		groups[v].Add(uint32(i))
	}
	for v, cols := range groups {
		x.SetMany(cols, v)
	}
	c.Step("BSI32 with %d columns, %d distinct scattered values, both signs=%v, BitCount=%d", N, len(groups), mixed, x.BitCount())
	c.Count(fmt.Sprintf("parallel_scan_index_both_signs_%v", mixed))
	for q := 0; q < 4; q++ {
		var list []int64
		in := map[int64]bool{}
		// query lists: any sign, non-negative only, negative only
		kind := []string{"any", "any", "nonneg", "neg"}[q]
		if !mixed {
			kind = "any"
		}
		for len(list) < 140+r.Intn(60) {
			v := gen(200)
			if r.Chance(0.1) {
				v += 1
			}
			if (kind == "nonneg" && v < 0) || (kind == "neg" && v >= 0) {
				continue
			}
			list = append(list, v)
			in[v] = true
		}
		c.Step("query list kind=%s (%d values)", kind, len(list))
		want := roaring.New()
		for i, v := range vals {
			if in[v] {
				want.Add(uint32(i))
			}
		}
		for _, w := range []int{0, 1, 3, 16} {
			var got *roaring.Bitmap
			if c.Guard("BSI32/BatchEqual/parallel-scan", func() { got = x.BatchEqual(w, list) }) {
				return
			}
			c.Eval(1)
			if !got.Equals(want) {
				c.Fail("BSI32/BatchEqual/parallel-scan/columns", "BatchEqual(workers=%d) over %d values returned %d columns, want %d", w, len(list), got.GetCardinality(), want.GetCardinality())
				return
			}
		}
		c.Distinct(mix(c.CaseSeed, uint64(q)))
	}
}
