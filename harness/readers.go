package main

// Source zoo for the stream entry points. ReadFrom takes an io.Reader: the only thing the library may rely on
// is Read. Real sources implement optional interfaces whose behaviour is legal for their type but useless or
// misleading to a decoder that probes for them: a pipe or socket has a Seek method that always fails, a
// buffered wrapper around a file promotes the file's Seek although Read goes through the buffer, a reader may
// return data together with io.EOF, or one byte at a time.

import (
	"bufio"
	"bytes"
	"errors"
	"io"
	"os"
)

// pipeLike: Read works, Seek exists and fails (what *os.File does on a pipe, FIFO or socket).
type pipeLike struct {
	rd    *chunkedReader
	seeks int
}

func (p *pipeLike) Read(b []byte) (int, error) { return p.rd.Read(b) }
func (p *pipeLike) Seek(off int64, whence int) (int64, error) {
	p.seeks++
	return 0, errors.New("seek: illegal seek")
}

// bufferedFileLike: struct{ *File; br *bufio.Reader } - Seek is promoted from the underlying source and is
// not coherent with Read, which goes through the buffer.
type bufferedFileLike struct {
	*bytes.Reader
	br *bufio.Reader
}

func (b *bufferedFileLike) Read(p []byte) (int, error) { return b.br.Read(p) }

type namedReader struct {
	name string
	rd   io.Reader
	done func()
}

// sourceZoo returns one hostile-but-legal source for the stream (plus tail bytes that must stay unread by
// anything but the buffer of the buffered variant).
func sourceZoo(r *Rng, wire []byte) namedReader {
	data := append([]byte(nil), wire...)
	switch r.Intn(5) {
	case 0:
		return namedReader{"pipe-like source whose Seek fails", &pipeLike{rd: &chunkedReader{data: data, r: r}}, func() {}}
	case 1:
		under := bytes.NewReader(data)
		return namedReader{"buffered wrapper promoting the underlying Seek", &bufferedFileLike{Reader: under, br: bufio.NewReaderSize(under, 16+r.Intn(5000))}, func() {}}
	case 2:
		pr, pw, err := os.Pipe()
		if err != nil {
			return namedReader{"one byte per Read", &chunkedReader{data: data, r: r}, func() {}}
		}
		go func() {
			pw.Write(data)
			pw.Close()
		}()
		return namedReader{"os.Pipe", pr, func() {
			io.Copy(io.Discard, pr)
			pr.Close()
		}}
	case 3:
		return namedReader{"bufio.Reader over a chunked source", bufio.NewReaderSize(&chunkedReader{data: data, r: r}, 16+r.Intn(300)), func() {}}
	default:
		return namedReader{"data together with io.EOF", &chunkedReader{data: data, r: r, eofWithData: true}, func() {}}
	}
}
