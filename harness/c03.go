package main

import (
	"bytes"
	"fmt"
	"strings"

	"github.com/RoaringBitmap/roaring/v2"
)

func init() {
	register(&Property{
		ID: "C03", Level: "exploration", Builds: []string{"plain"},
		Rule:        "cases = generated bitmaps (26 chunk archetypes incl. full / single-value / key 0xFFFF chunks, 11 storage forms, up to 40 keys) each probed with a boundary-biased argument battery (0, every interval end +-1, chunk edges +-1, gaps, 2^32-1, random present/absent) for Contains, Rank, Select (incl. card-1, card, card+1 and cumulative chunk boundaries), CardinalityInRange / IntersectsWithInterval over pairs of those arguments incl. end=2^32 and end>2^32, Minimum/Maximum, Equals across storage forms and one-element perturbations, ToArray/ToExistingArray, Checksum under Clone and a serialize/deserialize round trip; raw storage hashed before/after (queries must not modify). Plus ALL subsets of an 8-value boundary domain x all targets of the domain +-1. Non-trivial: non-empty bitmap; distinct = hash(set, form). Equals is also asked about different sets of EQUAL cardinality (gap shifted, value or chunk moved). Exhaustive sub-space: every chunk count (quick 0..4200 + edges up to 65536, thorough all 0..65536) through the query battery and the Checksum clauses. Universe-scale bitmaps (cardinality 2^32 and just below) run the same battery.",
		Assumptions: []string{"interval-set model validated by selfcheck", "Minimum/Maximum on an empty bitmap are out of domain"},
		Units: []Unit{
			{Name: "queries", Quick: 24000, Thorough: 800000, Run: c03Queries},
			{Name: "universe-scale", Quick: 12, Thorough: 300, Run: c03Universe},
			{Name: "every-chunk-count", ExhaustiveN: func(t string) int { return len(chunkCounts(t)) }, RunIndexed: c03EveryCount},
			{Name: "exhaustive-subsets", ExhaustiveN: func(string) int { return 256 * 3 }, RunIndexed: c03Exh},
		},
	})
}

func argBattery(r *Rng, m *ISet, n int) []uint64 {
	args := []uint64{0, 1, max32, max32 - 1, 65535, 65536}
	ivs := m.Intervals()
	pick := func(v IV) {
		k := v.Lo >> 16
		args = append(args, v.Lo, v.Hi, (v.Lo-1)&max32, (v.Hi+1)&max32, k<<16, k<<16|0xFFFF, (k<<16-1)&max32, ((k+1)<<16)&max32)
	}
	if len(ivs) <= n {
		for _, v := range ivs {
			pick(v)
		}
	} else {
		pick(ivs[0])
		pick(ivs[len(ivs)-1])
		for i := 0; i < n; i++ {
			pick(ivs[r.Intn(len(ivs))])
		}
	}
	for i := 0; i < n; i++ {
		args = append(args, edgeVal32(r, m))
	}
	return args
}

func queryBattery(c *Ctx, bm *BM, nargs int) {
	b, m := bm.B, bm.M
	r := c.R
	h0 := storageHash(b)
	card := m.Card()
	sig := func(q string) string { return "query/" + q }
	c.Guard("query", func() {
		if g := b.GetCardinality(); g != card {
			c.Fail(sig("GetCardinality"), "GetCardinality=%d want %d", g, card)
		}
		if b.IsEmpty() != (card == 0) {
			c.Fail(sig("IsEmpty"), "IsEmpty=%v card=%d", b.IsEmpty(), card)
		}
		c.Eval(2)
		if card > 0 {
			mn, _ := m.Min()
			mx, _ := m.Max()
			if g := b.Minimum(); uint64(g) != mn {
				c.Fail(sig("Minimum"), "Minimum=%d want %d", g, mn)
			}
			if g := b.Maximum(); uint64(g) != mx {
				c.Fail(sig("Maximum"), "Maximum=%d want %d", g, mx)
			}
			c.Eval(2)
		}
		args := argBattery(r, m, nargs)
		for _, x := range args {
			if g, w := b.Contains(uint32(x)), m.Contains(x); g != w {
				c.Fail(sig("Contains"), "Contains(%d)=%v want %v", x, g, w)
			}
			if x <= 1<<31-1 {
				if g, w := b.ContainsInt(int(x)), m.Contains(x); g != w {
					c.Fail(sig("ContainsInt"), "ContainsInt(%d)=%v want %v", x, g, w)
				}
			}
			if g, w := b.Rank(uint32(x)), m.Rank(x); g != w {
				c.Fail(sig("Rank"), "Rank(%d)=%d want %d (set %s)", x, g, w, m)
			}
			c.Eval(3)
		}
		// Select
		sel := []uint64{0, 1, card - 1, card, card + 1, card / 2, 65535, 65536, 4095, 4096, max32}
		cum := uint64(0)
		for _, v := range splitAtChunks(m.Intervals()) {
			cum += v.Hi - v.Lo + 1
			if len(sel) < 60 {
				sel = append(sel, cum-1, cum)
			}
		}
		for i := 0; i < nargs/2; i++ {
			if card > 0 {
				sel = append(sel, r.U64n(card))
			}
		}
		for _, i := range sel {
			if i > max32 {
				continue
			}
			g, err := b.Select(uint32(i))
			w, ok := m.Select(i)
			if ok != (err == nil) || (ok && uint64(g) != w) {
				c.Fail(sig("Select"), "Select(%d)=(%d,%v) want (%d,ok=%v) card=%d", i, g, err, w, ok, card)
			}
			c.Eval(1)
		}
		// range counts
		for k := 0; k < nargs; k++ {
			a := args[r.Intn(len(args))]
			e := args[r.Intn(len(args))]
			switch r.Intn(8) {
			case 0:
				e = 1 << 32
			case 1:
				e = 1<<32 + r.Range(0, 1<<33)
			case 2:
				e = a
			case 3:
				e = a + 1
			case 4:
				a = 0
			}
			var w uint64
			we := e
			if we > 1<<32 {
				we = 1 << 32
			}
			if a < we {
				w = m.CountRange(a, we-1)
			}
			if g := b.CardinalityInRange(a, e); g != w {
				c.Fail(sig("CardinalityInRange"), "CardinalityInRange(%d,%d)=%d want %d (set %s)", a, e, g, w, m)
			}
			if g := b.IntersectsWithInterval(a, e); g != (w > 0) {
				c.Fail(sig("IntersectsWithInterval"), "IntersectsWithInterval(%d,%d)=%v want %v (set %s)", a, e, g, w > 0, m)
			}
			c.Eval(2)
		}
		// ToArray / ToExistingArray
		if card <= 1<<20 {
			want := m.Values32()
			got := b.ToArray()
			if !equalU32(got, want) {
				c.Fail(sig("ToArray"), "ToArray differs from the sorted element list (len %d vs %d)", len(got), len(want))
			}
			buf := make([]uint32, card+uint64(r.Intn(3)))
			for i := range buf {
				buf[i] = 0xDEADBEEF
			}
			p := b.ToExistingArray(&buf)
			if p == nil || len(*p) < int(card) || !equalU32((*p)[:card], want) {
				c.Fail(sig("ToExistingArray"), "ToExistingArray differs from the sorted element list")
			}
			c.Eval(2)
		}
	})
	if storageHash(b) != h0 {
		c.Fail("query/modified-bitmap", "a read-only query changed the raw storage of the bitmap")
	}
	c.Eval(1)
}

// equalCardPerturbation returns a set that differs from m but has the same cardinality in every chunk (one value
// moved inside its chunk) or the same multiset of chunk cardinalities at other keys (a whole chunk moved to an absent
// key of the same `chunkBits`-wide grid; universe = the exclusive end of the value space, 0 meaning 2^64).
func equalCardPerturbation(r *Rng, m *ISet, universe uint64) (*ISet, string) {
	ivs := m.Intervals()
	if len(ivs) == 0 {
		return nil, ""
	}
	if r.Chance(0.35) {
		// shift one boundary of a gap between two intervals of the same chunk by one (the gap keeps its width, the
		// set its cardinality; with an interior gap also its minimum and maximum)
		for try := 0; try < 10 && len(ivs) > 1; try++ {
			i := r.Intn(len(ivs) - 1)
			l, h := ivs[i], ivs[i+1]
			if l.Hi>>16 != h.Lo>>16 {
				continue
			}
			pm := m.Clone()
			if r.Chance(0.5) && h.Hi > h.Lo { // the gap moves up: its first value is filled, the value after it removed
				pm.Add(l.Hi + 1)
				pm.Remove(h.Lo)
				return pm, fmt.Sprintf("gap-shifted up at %d", l.Hi+1)
			} else if l.Hi > l.Lo {
				pm.Remove(l.Hi)
				pm.Add(h.Lo - 1)
				return pm, fmt.Sprintf("gap-shifted down at %d", l.Hi)
			}
		}
	}
	if r.Chance(0.6) {
		// move one value inside its chunk
		for try := 0; try < 20; try++ {
			v := ivs[r.Intn(len(ivs))]
			x := r.Range(v.Lo, v.Hi)
			if r.Chance(0.5) {
				x = []uint64{v.Lo, v.Hi}[r.Intn(2)]
			}
			base := x &^ 0xFFFF
			var y uint64
			switch r.Intn(4) {
			case 0:
				y = base | r.Range(0, 65535)
			case 1:
				y = x + 1
			case 2:
				y = x - 1
			default:
				y = base | edgeVal16(r)
			}
			if y&^0xFFFF != base || m.Contains(y) {
				continue
			}
			pm := m.Clone()
			pm.Remove(x)
			pm.Add(y)
			return pm, fmt.Sprintf("value-moved %d -> %d", x, y)
		}
	}
	// move one whole chunk to an absent key
	for try := 0; try < 20; try++ {
		v := ivs[r.Intn(len(ivs))]
		k := v.Lo >> 16
		var nk uint64
		switch r.Intn(3) {
		case 0:
			nk = k + 1
		case 1:
			nk = k - 1
		default:
			nk = edgeVal32(r, m) >> 16
		}
		if (universe != 0 && nk >= universe>>16) || nk >= 1<<48 {
			continue
		}
		if universe == 0 && r.Chance(0.5) {
			nk = k ^ (uint64(1) << (16 + r.Intn(32))) // another bucket
		}
		if nk >= 1<<48 || nk == k || m.CountRange(nk<<16, nk<<16|0xFFFF) != 0 {
			continue
		}
		chunk := m.Restrict(k<<16, k<<16|0xFFFF)
		pm := m.Clone()
		pm.RemoveRange(k<<16, k<<16|0xFFFF)
		for _, w := range chunk.Intervals() {
			pm.AddRange(w.Lo-(k<<16)+(nk<<16), w.Hi-(k<<16)+(nk<<16))
		}
		return pm, fmt.Sprintf("chunk-moved key %d -> %d", k, nk)
	}
	return nil, ""
}

func equalU32(a, b []uint32) bool {
	if len(a) != len(b) {
		return false
	}
	for i := range a {
		if a[i] != b[i] {
			return false
		}
	}
	return true
}

func c03Queries(c *Ctx) {
	r := c.R
	o := GenOpts{MaxChunks: 6, HeavyP: 0.4}
	if r.Chance(0.1) {
		o = GenOpts{MaxChunks: 40, HeavyP: 0.05}
	}
	m, archs := genSet(r, o)
	form := ownedForms[r.Intn(len(ownedForms))]
	bm, es := buildForm(r, m, form)
	c.Step("bitmap form=%s archetypes=%v set=%v", form, archs, descSet(m))
	if es != "" {
		c.Fail("build/"+form, "%s", es)
		return
	}
	for _, a := range archs {
		c.Count("archetype_" + a)
	}
	countKinds(c, "chunk_kind_", bm.B)
	if !m.IsEmpty() {
		c.Distinct(mix(m.Hash(), hashStr(form)))
	}
	if r.Chance(0.35) && !bm.ZC {
		// the bitmap under query is the outcome of a history (emptied, trimmed, split, refilled chunks; in-place algebra)
		for i := 0; i < 1+r.Intn(6) && !c.Failed(); i++ {
			if r.Chance(0.25) {
				algebraStep(c, bm, "history/")
			} else {
				mutateStep(c, bm, MutOpts{Light: true, NoClone: true, Sig: "history/"})
			}
		}
		if c.Failed() {
			return
		}
		m = bm.M
		c.Count("bitmap_reached_by_a_history")
	}
	queryBattery(c, bm, 24)
	if c.Failed() {
		return
	}
	// Equals across storage forms and under one-element perturbations
	c.Guard("query/Equals", func() {
		f2 := ownedForms[r.Intn(len(ownedForms))]
		o2, es := buildForm(r, m, f2)
		if es != "" {
			c.Fail("build/"+f2, "%s", es)
			return
		}
		c.Step("Equals against the same set in form %s", f2)
		if !bm.B.Equals(o2.B) || !o2.B.Equals(bm.B) {
			c.Fail("query/Equals/same-set", "Equals is false for the same set stored as %s and %s", form, f2)
		}
		if bm.B.Checksum() != o2.B.Checksum() && false {
			// Checksum is representation dependent by design; only Clone / round trip are promised
		}
		p := m.Clone()
		x := edgeVal32(r, m)
		if !p.Add(x) {
			p.Remove(x)
		}
		o3, es := buildForm(r, p, f2)
		if es != "" {
			c.Fail("build/"+f2, "%s", es)
			return
		}
		c.Step("Equals against the set with value %d toggled", x)
		if bm.B.Equals(o3.B) || o3.B.Equals(bm.B) {
			c.Fail("query/Equals/different-set", "Equals is true for sets that differ in value %d", x)
		}
		// sets of the SAME cardinality (chunk by chunk) that differ: one value moved inside its chunk, and one
		// whole chunk moved to a key that was absent (same number of chunks, same cardinalities, other keys)
		if pm, what := equalCardPerturbation(r, m, 1<<32); pm != nil {
			for _, f3 := range []string{form, f2} {
				o4, es := buildForm(r, pm, f3)
				if es != "" {
					c.Fail("build/"+f3, "%s", es)
					return
				}
				c.Step("Equals against a set of the same cardinality (%s), form %s", what, f3)
				if bm.B.Equals(o4.B) || o4.B.Equals(bm.B) {
					c.Fail("query/Equals/different-set-same-cardinality", "Equals is true for different sets of equal cardinality (%s; forms %s and %s)", what, form, f3)
				}
				c.Count("equals_same_cardinality_" + strings.Fields(what)[0])
				c.Eval(2)
			}
		}
		if bm.B.Equals(nil) || bm.B.Equals(42) {
			c.Fail("query/Equals/non-bitmap", "Equals(non-bitmap) returned true")
		}
		c.Eval(3)
		// Checksum: unchanged by Clone and by a serialize/deserialize round trip
		cs := bm.B.Checksum()
		if g := bm.B.Clone().Checksum(); g != cs {
			c.Fail("query/Checksum/clone", "Checksum changed by Clone: %d vs %d", cs, g)
		}
		buf, err := bm.B.ToBytes()
		if err != nil {
			c.Fail("query/Checksum/ToBytes", "ToBytes failed: %v", err)
			return
		}
		rt := roaring.New()
		// the stream may arrive in pieces of any size (short reads are legal for an io.Reader)
		var rerr error
		switch r.Intn(3) {
		case 0:
			_, rerr = rt.ReadFrom(bytes.NewReader(buf))
		case 1:
			_, rerr = rt.ReadFrom(&chunkedReader{data: append([]byte(nil), buf...), r: r})
		default:
			src := sourceZoo(r, buf)
			c.Step("round trip through source: %s", src.name)
			_, rerr = rt.ReadFrom(src.rd)
			src.done()
		}
		if rerr != nil {
			c.Fail("query/Checksum/ReadFrom", "ReadFrom failed on the library's own bytes: %v", rerr)
			return
		}
		if g := rt.Checksum(); g != cs {
			c.Fail("query/Checksum/roundtrip", "Checksum changed by a serialize/deserialize round trip: %d vs %d", cs, g)
		}
		rt2 := roaring.New()
		if _, err := rt2.FromBuffer(buf); err == nil {
			if g := rt2.Checksum(); g != cs {
				c.Fail("query/Checksum/roundtrip-frombuffer", "Checksum changed by a FromBuffer round trip")
			}
		}
		c.Eval(3)
	})
	c.Sample(map[string]any{"unit": "queries", "case_seed": c.CaseSeed, "form": form, "archetypes": archs, "set": descSet(m)})
}

func c03Exh(c *Ctx, index int) {
	mask := index / 3
	form := []string{"add", "opt", "frozen"}[index%3]
	m := subsetOf(c01Dom, mask)
	bm, es := buildForm(c.R, m, form)
	c.Step("subset=%v form=%s", m.Full(), form)
	if es != "" {
		c.Fail("build/"+form, "%s", es)
		return
	}
	var targets []uint64
	for _, v := range c01Dom {
		targets = append(targets, v, (v-1)&max32, (v+1)&max32)
	}
	c.Guard("query/exh", func() {
		for _, x := range targets {
			if bm.B.Contains(uint32(x)) != m.Contains(x) || bm.B.Rank(uint32(x)) != m.Rank(x) {
				c.Fail("query/exh/Contains-Rank", "Contains/Rank(%d) wrong for %v", x, m.Full())
			}
			for _, y := range append(targets, 1<<32) {
				var w uint64
				if x < y {
					w = m.CountRange(x, y-1)
				}
				if g := bm.B.CardinalityInRange(x, y); g != w {
					c.Fail("query/exh/CardinalityInRange", "CardinalityInRange(%d,%d)=%d want %d for %v", x, y, g, w, m.Full())
				}
				if g := bm.B.IntersectsWithInterval(x, y); g != (w > 0) {
					c.Fail("query/exh/IntersectsWithInterval", "IntersectsWithInterval(%d,%d)=%v for %v", x, y, g, m.Full())
				}
				c.Eval(2)
			}
			c.Eval(2)
		}
		for i := uint64(0); i <= 9; i++ {
			g, err := bm.B.Select(uint32(i))
			w, ok := m.Select(i)
			if ok != (err == nil) || (ok && uint64(g) != w) {
				c.Fail("query/exh/Select", "Select(%d) wrong for %v", i, m.Full())
			}
			c.Eval(1)
		}
	})
	if mask != 0 {
		c.Distinct(uint64(index))
	}
	_ = fmt.Sprint
}
