package main

// Core of the monitoring harness: case contexts, violation reporting with
// signatures, known-finding matching, evidence accumulation, worker journals.

import (
	"encoding/json"
	"fmt"
	"hash/fnv"
	"math/rand"
	"os"
	"path/filepath"
	"runtime/debug"
	"sort"
	"strings"
	"sync"
	"time"
)

// ---------------------------------------------------------------- RNG

type Rng struct{ *rand.Rand }

func NewRng(seed uint64) *Rng { return &Rng{rand.New(rand.NewSource(int64(seed)))} }

func (r *Rng) Chance(p float64) bool { return r.Float64() < p }
func (r *Rng) U64n(n uint64) uint64 {
	if n == 0 {
		return 0
	}
	return r.Uint64() % n
}

// Range returns a value in [lo,hi].
func (r *Rng) Range(lo, hi uint64) uint64 {
	if hi <= lo {
		return lo
	}
	if hi-lo == maxU64 {
		return r.Uint64()
	}
	return lo + r.Uint64()%(hi-lo+1)
}
func (r *Rng) Pick(n int) int { return r.Intn(n) }

func mix(a, b uint64) uint64 {
	h := fnv.New64a()
	var buf [16]byte
	for i := 0; i < 8; i++ {
		buf[i] = byte(a >> (8 * i))
		buf[8+i] = byte(b >> (8 * i))
	}
	h.Write(buf[:])
	x := h.Sum64()
	x ^= x >> 33
	x *= 0xff51afd7ed558ccd
	x ^= x >> 33
	return x
}

func hashStr(s string) uint64 {
	h := fnv.New64a()
	h.Write([]byte(s))
	return h.Sum64()
}

// ---------------------------------------------------------------- results

// Violation is one refuted case.
type Violation struct {
	Property  string   `json:"property"`
	Signature string   `json:"signature"`
	Message   string   `json:"message"`
	Unit      string   `json:"unit"`
	CaseSeed  uint64   `json:"case_seed"`
	Tier      string   `json:"tier"`
	RunSeed   uint64   `json:"run_seed"` // VERIF_SEED of the run (exhaustive units derive their layouts from it)
	History   []string `json:"history,omitempty"`
	Stack     string   `json:"stack,omitempty"`
}

// WorkerResult is what one worker process reports to the parent.
type WorkerResult struct {
	Property    string              `json:"property"`
	Evaluations int64               `json:"evaluations"`
	Cases       int64               `json:"cases"`
	Nontrivial  []uint64            `json:"nontrivial"` // hashes of distinct non-trivial cases
	Hist        map[string]int64    `json:"hist"`
	Sets        map[string][]uint64 `json:"sets"` // named sets of hashes (distinct states, traces ...)
	Samples     []json.RawMessage   `json:"samples"`
	Violations  []Violation         `json:"violations"`
	Notes       []string            `json:"notes"`
	Exhaustive  map[string]int64    `json:"exhaustive"` // sub-space name -> number of cases enumerated completely
	Done        bool                `json:"done"`
}

// Ctx is handed to a unit (one sub-workload of a property) for one case.
type Ctx struct {
	Prop     string
	Unit     string
	Tier     string
	CaseSeed uint64
	R        *Rng
	W        *Worker
	hist     []string // history of the running case (journal before execute)
	failed   bool
}

type Worker struct {
	mu      sync.Mutex
	res     WorkerResult
	nt      map[uint64]struct{}
	sets    map[string]map[uint64]struct{}
	journal *os.File
	maxViol int
	sigSeen map[string]int
	replay  bool
}

func newWorker(prop string, journalPath string) *Worker {
	w := &Worker{nt: map[uint64]struct{}{}, sets: map[string]map[uint64]struct{}{}, sigSeen: map[string]int{}, maxViol: 40}
	w.res.Property = prop
	w.res.Hist = map[string]int64{}
	w.res.Exhaustive = map[string]int64{}
	if journalPath != "" {
		f, err := os.Create(journalPath)
		if err == nil {
			w.journal = f
		}
	}
	return w
}

func (w *Worker) Journal(s string) {
	if w.journal != nil {
		w.journal.WriteString(s + "\n")
	}
}

// Count increments a named histogram bucket in the evidence.
func (c *Ctx) Count(name string) { c.CountN(name, 1) }
func (c *Ctx) CountN(name string, n int64) {
	c.W.mu.Lock()
	c.W.res.Hist[name] += n
	c.W.mu.Unlock()
}

// Eval counts oracle evaluations (comparisons of an observation with the model).
func (c *Ctx) Eval(n int64) {
	c.W.mu.Lock()
	c.W.res.Evaluations += n
	c.W.mu.Unlock()
}

// Distinct records a distinct non-trivial case (by descriptor hash).
func (c *Ctx) Distinct(h uint64) {
	c.W.mu.Lock()
	c.W.nt[h] = struct{}{}
	c.W.mu.Unlock()
}

// SetAdd records membership of h in a named set whose size is reported as evidence.
func (c *Ctx) SetAdd(name string, h uint64) {
	c.W.mu.Lock()
	m := c.W.sets[name]
	if m == nil {
		m = map[uint64]struct{}{}
		c.W.sets[name] = m
	}
	if len(m) < 200000 {
		m[h] = struct{}{}
	}
	c.W.mu.Unlock()
}

func (c *Ctx) Sample(v any) {
	c.W.mu.Lock()
	defer c.W.mu.Unlock()
	if len(c.W.res.Samples) >= 3 {
		return
	}
	b, err := json.Marshal(v)
	if err == nil {
		c.W.res.Samples = append(c.W.res.Samples, b)
	}
}

func (c *Ctx) Note(s string) {
	c.W.mu.Lock()
	if len(c.W.res.Notes) < 50 {
		c.W.res.Notes = append(c.W.res.Notes, s)
	}
	c.W.mu.Unlock()
}

// Step journals a step of the case history BEFORE it is executed.
func (c *Ctx) Step(format string, a ...any) {
	s := fmt.Sprintf(format, a...)
	if len(c.hist) < 4000 {
		c.hist = append(c.hist, s)
	}
	if c.W.replay {
		fmt.Println("  step:", s)
	}
	c.W.Journal("  " + s)
}

// Fail records a violation. sig is the coarse signature used for known-finding matching.
func (c *Ctx) Fail(sig string, format string, a ...any) {
	c.failed = true
	msg := fmt.Sprintf(format, a...)
	c.W.mu.Lock()
	defer c.W.mu.Unlock()
	c.W.sigSeen[sig]++
	if c.W.sigSeen[sig] > 3 || len(c.W.res.Violations) >= c.W.maxViol {
		c.W.res.Hist["violations_suppressed_duplicates"]++
		return
	}
	h := c.hist
	if len(h) > 400 {
		h = append([]string{fmt.Sprintf("… %d earlier steps omitted (re-run with replay to see all) …", len(h)-400)}, h[len(h)-400:]...)
	}
	c.W.res.Violations = append(c.W.res.Violations, Violation{
		Property: c.Prop, Signature: sig, Message: msg, Unit: c.Unit, CaseSeed: c.CaseSeed, Tier: c.Tier, RunSeed: seedFromEnv(),
		History: append([]string(nil), h...),
	})
}

func (c *Ctx) Failed() bool { return c.failed }

// Guard runs f and converts a Go panic into a violation with signature sig+"/panic".
// It returns true when f panicked.
func (c *Ctx) Guard(sig string, f func()) (panicked bool) {
	defer func() {
		if r := recover(); r != nil {
			panicked = true
			st := string(debug.Stack())
			if d, isFault := classifyFault(r); isFault {
				c.Fail(sig+"/memory-fault", "%s\npanic: %v\n%s", d, r, trimStack(st))
				return
			}
			c.Fail(sig+"/panic", "panic: %v\n%s", r, trimStack(st))
		}
	}()
	f()
	return false
}

// Try runs f and reports whether it panicked, without recording a violation.
func Try(f func()) (pv any, st string) {
	defer func() {
		if r := recover(); r != nil {
			pv = r
			st = trimStack(string(debug.Stack()))
		}
	}()
	f()
	return nil, ""
}

func trimStack(s string) string {
	lines := strings.Split(s, "\n")
	var keep []string
	for _, l := range lines {
		if strings.Contains(l, "roaring") || strings.Contains(l, "harness") {
			keep = append(keep, strings.TrimSpace(l))
		}
		if len(keep) >= 14 {
			break
		}
	}
	return strings.Join(keep, "\n")
}

// ---------------------------------------------------------------- units

// A Unit is one sub-workload of a property: Run is called once per case with a
// context whose PRNG is derived from the case seed only, so that any case can be replayed.
type Unit struct {
	Name string
	// Cases per tier for the whole run (split across workers).
	Quick, Thorough int
	Run             func(c *Ctx)
	// Exhaustive units enumerate a finite space: Run is called with c.Index = 0..N-1.
	ExhaustiveN func(tier string) int
	RunIndexed  func(c *Ctx, index int)
	// Serial units are run by worker 0 only (e.g. they need the whole machine).
	Serial bool
}

type Property struct {
	ID          string
	Level       string // exploration | fault_enumeration
	Rule        string
	Units       []Unit
	Assumptions []string
	// Build variants needed: "plain", "race", "checkptr"
	Builds []string
	// RlimitAS, when non-zero, limits the address space of the (non-race) worker processes.
	RlimitAS uint64
}

var registry = map[string]*Property{}

func register(p *Property) { registry[p.ID] = p }

// runWorker executes this worker's share of the cases of property p.
func runWorker(p *Property, tier string, seed uint64, wi, wn int, variant string, w *Worker) {
	for ui := range p.Units {
		u := &p.Units[ui]
		if !unitInVariant(u.Name, variant) {
			continue
		}
		if f := os.Getenv("VERIF_UNITS"); f != "" && !strings.Contains(","+f+",", ","+u.Name+",") {
			continue
		}
		if u.ExhaustiveN != nil {
			n := u.ExhaustiveN(tier)
			cnt := int64(0)
			for i := wi; i < n; i += wn {
				runCase(p, u, tier, uint64(i), true, w)
				cnt++
			}
			w.mu.Lock()
			w.res.Exhaustive[u.Name] += cnt
			w.mu.Unlock()
			continue
		}
		n := u.Quick
		if tier == "thorough" {
			n = u.Thorough
		}
		if u.Serial {
			if wi != 0 {
				continue
			}
			for i := 0; i < n; i++ {
				runCase(p, u, tier, mix(mix(seed, hashStr(p.ID+"/"+u.Name)), uint64(i)), false, w)
			}
			continue
		}
		for i := wi; i < n; i += wn {
			runCase(p, u, tier, mix(mix(seed, hashStr(p.ID+"/"+u.Name)), uint64(i)), false, w)
		}
	}
}

// unitInVariant: units whose name ends in "@race" run only in the race build, "@checkptr"
// only in the checkptr build, "@plain" only in the plain build; others run in every variant
// that the property lists.
func unitInVariant(name, variant string) bool {
	if i := strings.LastIndex(name, "@"); i >= 0 {
		for _, v := range strings.Split(name[i+1:], ",") {
			if v == variant {
				return true
			}
		}
		return false
	}
	return variant == "plain"
}

func runCase(p *Property, u *Unit, tier string, caseSeed uint64, indexed bool, w *Worker) {
	c := &Ctx{Prop: p.ID, Unit: u.Name, Tier: tier, CaseSeed: caseSeed, R: NewRng(caseSeed), W: w}
	w.Journal(fmt.Sprintf("CASE %s %s %d", p.ID, u.Name, caseSeed))
	w.mu.Lock()
	w.res.Cases++
	w.mu.Unlock()
	defer func() {
		if r := recover(); r != nil {
			st := string(debug.Stack())
			// A panic that escapes a unit un-guarded is attributed to the harness unless
			// a roaring frame is at the top of the stack.
			sig := "harness/unexpected-panic"
			if d, isFault := classifyFault(r); isFault {
				c.Fail("memory-fault/"+topRoaringFunc(st), "%s\npanic: %v\n%s", d, r, trimStack(st))
				return
			}
			if strings.Contains(firstFrames(st, 8), "RoaringBitmap/roaring") {
				sig = "library-panic/" + topRoaringFunc(st)
			}
			c.Fail(sig, "panic: %v\n%s", r, trimStack(st))
		}
	}()
	if indexed {
		u.RunIndexed(c, int(caseSeed))
	} else {
		u.Run(c)
	}
	// every worker reports at least one actual case
	w.mu.Lock()
	none := len(w.res.Samples) == 0
	w.mu.Unlock()
	if none && len(c.hist) > 0 {
		c.Sample(map[string]any{"unit": u.Name, "case_seed": caseSeed, "steps": firstN(c.hist, 10)})
	}
}

func firstFrames(st string, n int) string {
	lines := strings.Split(st, "\n")
	// skip the goroutine header and the debug.Stack / panic frames
	var out []string
	for _, l := range lines {
		if strings.HasPrefix(l, "\t") {
			continue
		}
		if strings.Contains(l, "debug.Stack") || strings.HasPrefix(l, "panic(") || strings.HasPrefix(l, "goroutine ") || strings.Contains(l, "runCase.func") || strings.HasPrefix(l, "runtime.") {
			continue
		}
		out = append(out, l)
		if len(out) >= n {
			break
		}
	}
	return strings.Join(out, "\n")
}

func topRoaringFunc(st string) string {
	for _, l := range strings.Split(st, "\n") {
		if strings.HasPrefix(l, "github.com/RoaringBitmap/roaring") {
			f := l
			if i := strings.Index(f, "("); i > 0 && !strings.HasPrefix(f[i:], "(*") {
				f = f[:i]
			}
			f = strings.TrimPrefix(f, "github.com/RoaringBitmap/roaring/v2")
			if i := strings.LastIndex(f, "("); i > 0 && strings.HasSuffix(f, ")") && !strings.Contains(f[i:], "*") {
				f = f[:i]
			}
			return strings.Trim(f, "./")
		}
	}
	return "unknown"
}

func (w *Worker) finish(path string) error {
	w.mu.Lock()
	defer w.mu.Unlock()
	w.res.Nontrivial = w.res.Nontrivial[:0]
	for h := range w.nt {
		w.res.Nontrivial = append(w.res.Nontrivial, h)
	}
	w.res.Sets = map[string][]uint64{}
	for k, m := range w.sets {
		for h := range m {
			w.res.Sets[k] = append(w.res.Sets[k], h)
		}
	}
	w.res.Done = true
	b, err := json.Marshal(&w.res)
	if err != nil {
		return err
	}
	return os.WriteFile(path, b, 0o644)
}

// ---------------------------------------------------------------- known findings

type Finding struct {
	Kind     string // known | fixed
	Property string
	Key      string
	Text     string
}

func loadFindings(path string) ([]Finding, error) {
	b, err := os.ReadFile(path)
	if err != nil {
		if os.IsNotExist(err) {
			return nil, nil
		}
		return nil, err
	}
	var out []Finding
	for _, line := range strings.Split(string(b), "\n") {
		line = strings.TrimSpace(line)
		if line == "" || strings.HasPrefix(line, "#") {
			continue
		}
		var f Finding
		switch {
		case strings.HasPrefix(line, "known:"):
			f.Kind = "known"
			line = strings.TrimSpace(strings.TrimPrefix(line, "known:"))
		case strings.HasPrefix(line, "fixed:"):
			f.Kind = "fixed"
			line = strings.TrimSpace(strings.TrimPrefix(line, "fixed:"))
		default:
			continue
		}
		fields := strings.Fields(line)
		rest := []string{}
		for _, fl := range fields {
			switch {
			case strings.HasPrefix(fl, "property=") && f.Property == "":
				f.Property = strings.TrimPrefix(fl, "property=")
			case strings.HasPrefix(fl, "key=") && f.Key == "":
				f.Key = strings.TrimPrefix(fl, "key=")
			default:
				rest = append(rest, fl)
			}
		}
		f.Text = strings.Join(rest, " ")
		out = append(out, f)
	}
	return out, nil
}

// ---------------------------------------------------------------- evidence

type Evidence struct {
	PropertyID  string         `json:"property_id"`
	Tier        string         `json:"tier"`
	Seed        int64          `json:"seed"`
	Level       string         `json:"level"`
	Coverage    map[string]any `json:"coverage"`
	Assumptions []string       `json:"assumptions"`
	WallS       float64        `json:"wall_s"`
	Violations  int            `json:"violations"`
}

func writeJSON(path string, v any) error {
	b, err := json.MarshalIndent(v, "", " ")
	if err != nil {
		return err
	}
	os.MkdirAll(filepath.Dir(path), 0o755)
	tmp := path + ".tmp"
	if err := os.WriteFile(tmp, b, 0o644); err != nil {
		return err
	}
	return os.Rename(tmp, path)
}

func sortedKeys[V any](m map[string]V) []string {
	k := make([]string, 0, len(m))
	for s := range m {
		k = append(k, s)
	}
	sort.Strings(k)
	return k
}

var startTime = time.Now()

// hstep is one step of a 64-bit mixing hash (FNV-style multiply plus a xor-shift so that
// differences confined to the top bits of the input words do not cancel each other).
func hstep(h, x uint64) uint64 {
	h = (h ^ x) * 0x9E3779B97F4A7C15
	h ^= h >> 29
	return h
}
