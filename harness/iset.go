package main

// ISet is the reference model used by every monitor: a set of uint64 stored as
// sorted, disjoint, NON-ADJACENT closed intervals [Lo,Hi]. It shares no code with
// the library under test. The 32-bit monitors restrict it to [0, 2^32-1].
//
// It is validated against a brute-force bitset at setup time (selfcheck.go).

import (
	"fmt"
	"sort"
	"strings"
)

const maxU64 = ^uint64(0)
const max32 = uint64(1)<<32 - 1

type IV struct{ Lo, Hi uint64 }

type ISet struct{ iv []IV }

func NewISet() *ISet { return &ISet{} }

func ISetOf(ivs ...IV) *ISet {
	s := &ISet{}
	for _, v := range ivs {
		s.AddRange(v.Lo, v.Hi)
	}
	return s
}

func ISetFromValues(vals []uint64) *ISet {
	c := append([]uint64(nil), vals...)
	sort.Slice(c, func(i, j int) bool { return c[i] < c[j] })
	s := &ISet{}
	for _, v := range c {
		n := len(s.iv)
		if n > 0 && (s.iv[n-1].Hi == maxU64 || v <= s.iv[n-1].Hi+1) {
			if v > s.iv[n-1].Hi {
				s.iv[n-1].Hi = v
			}
			continue
		}
		s.iv = append(s.iv, IV{v, v})
	}
	return s
}

func (s *ISet) Clone() *ISet { return &ISet{iv: append([]IV(nil), s.iv...)} }

func (s *ISet) Intervals() []IV { return s.iv }

func (s *ISet) NumIntervals() int { return len(s.iv) }

func (s *ISet) IsEmpty() bool { return len(s.iv) == 0 }

// Card returns the number of elements (wraps for the full 2^64 set, which no monitor builds).
func (s *ISet) Card() uint64 {
	var c uint64
	for _, v := range s.iv {
		c += v.Hi - v.Lo + 1
	}
	return c
}

// idx returns the index of the first interval with Hi >= x (len if none).
func (s *ISet) idx(x uint64) int {
	return sort.Search(len(s.iv), func(i int) bool { return s.iv[i].Hi >= x })
}

func (s *ISet) Contains(x uint64) bool {
	i := s.idx(x)
	return i < len(s.iv) && s.iv[i].Lo <= x
}

func (s *ISet) Equal(o *ISet) bool {
	if len(s.iv) != len(o.iv) {
		return false
	}
	for i := range s.iv {
		if s.iv[i] != o.iv[i] {
			return false
		}
	}
	return true
}

// AddRange adds the closed interval [lo,hi]; no-op if lo>hi.
func (s *ISet) AddRange(lo, hi uint64) {
	if lo > hi {
		return
	}
	// first interval that touches or follows [lo,hi]: Hi+1 >= lo
	i := sort.Search(len(s.iv), func(k int) bool { return s.iv[k].Hi == maxU64 || s.iv[k].Hi+1 >= lo })
	// first interval strictly after and not adjacent: Lo > hi+1
	j := sort.Search(len(s.iv), func(k int) bool { return hi != maxU64 && s.iv[k].Lo > hi+1 })
	if i < j {
		if s.iv[i].Lo < lo {
			lo = s.iv[i].Lo
		}
		if s.iv[j-1].Hi > hi {
			hi = s.iv[j-1].Hi
		}
	}
	s.splice(i, j, IV{lo, hi})
}

func (s *ISet) splice(i, j int, repl ...IV) {
	tail := append([]IV(nil), s.iv[j:]...)
	s.iv = append(append(s.iv[:i], repl...), tail...)
}

// RemoveRange removes the closed interval [lo,hi].
func (s *ISet) RemoveRange(lo, hi uint64) {
	if lo > hi {
		return
	}
	i := s.idx(lo) // first with Hi>=lo
	j := sort.Search(len(s.iv), func(k int) bool { return s.iv[k].Lo > hi })
	if i >= j {
		return
	}
	var repl []IV
	if s.iv[i].Lo < lo {
		repl = append(repl, IV{s.iv[i].Lo, lo - 1})
	}
	if s.iv[j-1].Hi > hi {
		repl = append(repl, IV{hi + 1, s.iv[j-1].Hi})
	}
	s.splice(i, j, repl...)
}

func (s *ISet) Add(x uint64) bool {
	if s.Contains(x) {
		return false
	}
	s.AddRange(x, x)
	return true
}

func (s *ISet) Remove(x uint64) bool {
	if !s.Contains(x) {
		return false
	}
	s.RemoveRange(x, x)
	return true
}

func (s *ISet) Clear() { s.iv = s.iv[:0] }

// combine evaluates f pointwise over the whole universe; f(false,false) must be false.
func combine(a, b *ISet, f func(inA, inB bool) bool) *ISet {
	// boundary points: every Lo, and every Hi+1 (when it does not overflow)
	pts := make([]uint64, 0, 2*(len(a.iv)+len(b.iv)))
	ia, ib := 0, 0
	pa := boundaries(a)
	pb := boundaries(b)
	for ia < len(pa) || ib < len(pb) {
		var p uint64
		if ib >= len(pb) || (ia < len(pa) && pa[ia] <= pb[ib]) {
			p = pa[ia]
			ia++
		} else {
			p = pb[ib]
			ib++
		}
		if len(pts) == 0 || pts[len(pts)-1] != p {
			pts = append(pts, p)
		}
	}
	out := &ISet{}
	ka, kb := 0, 0
	for k, p := range pts {
		end := maxU64
		if k+1 < len(pts) {
			end = pts[k+1] - 1
		}
		for ka < len(a.iv) && a.iv[ka].Hi < p {
			ka++
		}
		for kb < len(b.iv) && b.iv[kb].Hi < p {
			kb++
		}
		inA := ka < len(a.iv) && a.iv[ka].Lo <= p
		inB := kb < len(b.iv) && b.iv[kb].Lo <= p
		if f(inA, inB) {
			n := len(out.iv)
			if n > 0 && out.iv[n-1].Hi+1 == p {
				out.iv[n-1].Hi = end
			} else {
				out.iv = append(out.iv, IV{p, end})
			}
		}
	}
	return out
}

func boundaries(s *ISet) []uint64 {
	p := make([]uint64, 0, 2*len(s.iv))
	for _, v := range s.iv {
		p = append(p, v.Lo)
		if v.Hi != maxU64 {
			p = append(p, v.Hi+1)
		}
	}
	return p
}

func (s *ISet) And(o *ISet) *ISet    { return combine(s, o, func(a, b bool) bool { return a && b }) }
func (s *ISet) Or(o *ISet) *ISet     { return combine(s, o, func(a, b bool) bool { return a || b }) }
func (s *ISet) Xor(o *ISet) *ISet    { return combine(s, o, func(a, b bool) bool { return a != b }) }
func (s *ISet) AndNot(o *ISet) *ISet { return combine(s, o, func(a, b bool) bool { return a && !b }) }

func (s *ISet) FlipRange(lo, hi uint64) {
	if lo > hi {
		return
	}
	r := s.Xor(&ISet{iv: []IV{{lo, hi}}})
	s.iv = r.iv
}

// Rank = #{v in s : v <= x}.
func (s *ISet) Rank(x uint64) uint64 {
	var c uint64
	for _, v := range s.iv {
		if v.Lo > x {
			break
		}
		h := v.Hi
		if h > x {
			h = x
		}
		c += h - v.Lo + 1
	}
	return c
}

// CountRange = #{v in s : lo <= v <= hi}.
func (s *ISet) CountRange(lo, hi uint64) uint64 {
	if lo > hi {
		return 0
	}
	var c uint64
	for i := s.idx(lo); i < len(s.iv) && s.iv[i].Lo <= hi; i++ {
		l, h := s.iv[i].Lo, s.iv[i].Hi
		if l < lo {
			l = lo
		}
		if h > hi {
			h = hi
		}
		c += h - l + 1
	}
	return c
}

// Select returns the i-th smallest element (0-based).
func (s *ISet) Select(i uint64) (uint64, bool) {
	for _, v := range s.iv {
		n := v.Hi - v.Lo + 1
		if i < n {
			return v.Lo + i, true
		}
		i -= n
	}
	return 0, false
}

func (s *ISet) Min() (uint64, bool) {
	if len(s.iv) == 0 {
		return 0, false
	}
	return s.iv[0].Lo, true
}

func (s *ISet) Max() (uint64, bool) {
	if len(s.iv) == 0 {
		return 0, false
	}
	return s.iv[len(s.iv)-1].Hi, true
}

// Next returns the smallest element >= x.
func (s *ISet) Next(x uint64) (uint64, bool) {
	i := s.idx(x)
	if i == len(s.iv) {
		return 0, false
	}
	if s.iv[i].Lo > x {
		return s.iv[i].Lo, true
	}
	return x, true
}

// Prev returns the largest element <= x.
func (s *ISet) Prev(x uint64) (uint64, bool) {
	i := sort.Search(len(s.iv), func(k int) bool { return s.iv[k].Lo > x })
	if i == 0 {
		return 0, false
	}
	if s.iv[i-1].Hi < x {
		return s.iv[i-1].Hi, true
	}
	return x, true
}

// NextAbsent returns the smallest value >= x, <= umax that is not an element.
func (s *ISet) NextAbsent(x, umax uint64) (uint64, bool) {
	i := s.idx(x)
	if i == len(s.iv) || s.iv[i].Lo > x {
		return x, true
	}
	if s.iv[i].Hi >= umax {
		return 0, false
	}
	return s.iv[i].Hi + 1, true
}

// PrevAbsent returns the largest value <= x that is not an element.
func (s *ISet) PrevAbsent(x uint64) (uint64, bool) {
	i := s.idx(x)
	if i == len(s.iv) || s.iv[i].Lo > x {
		return x, true
	}
	if s.iv[i].Lo == 0 {
		return 0, false
	}
	return s.iv[i].Lo - 1, true
}

// Complement within [lo,hi].
func (s *ISet) ComplementIn(lo, hi uint64) *ISet {
	if lo > hi {
		return &ISet{}
	}
	u := &ISet{iv: []IV{{lo, hi}}}
	return u.AndNot(s)
}

// Restrict to [lo,hi].
func (s *ISet) Restrict(lo, hi uint64) *ISet {
	if lo > hi {
		return &ISet{}
	}
	return s.And(&ISet{iv: []IV{{lo, hi}}})
}

// Shift returns {v+d : v in s, 0 <= v+d <= umax} for a signed offset d (|d| < 2^63).
func (s *ISet) Shift(d int64, umax uint64) *ISet {
	out := &ISet{}
	for _, v := range s.iv {
		var lo, hi uint64
		if d >= 0 {
			ud := uint64(d)
			if v.Lo > umax || v.Lo+ud < v.Lo || v.Lo+ud > umax {
				continue
			}
			lo = v.Lo + ud
			if v.Hi+ud < v.Hi || v.Hi+ud > umax {
				hi = umax
			} else {
				hi = v.Hi + ud
			}
		} else {
			ud := uint64(-d)
			if v.Hi < ud {
				continue
			}
			hi = v.Hi - ud
			if v.Lo < ud {
				lo = 0
			} else {
				lo = v.Lo - ud
			}
			if lo > umax {
				continue
			}
			if hi > umax {
				hi = umax
			}
		}
		out.iv = append(out.iv, IV{lo, hi})
	}
	return out
}

// Values materialises the elements (caller guarantees a small cardinality).
func (s *ISet) Values() []uint64 {
	out := make([]uint64, 0, s.Card())
	for _, v := range s.iv {
		for x := v.Lo; ; x++ {
			out = append(out, x)
			if x == v.Hi {
				break
			}
		}
	}
	return out
}

func (s *ISet) Values32() []uint32 {
	out := make([]uint32, 0, s.Card())
	for _, v := range s.iv {
		for x := v.Lo; ; x++ {
			out = append(out, uint32(x))
			if x == v.Hi {
				break
			}
		}
	}
	return out
}

// ForEach calls f on every element in increasing order until it returns false.
func (s *ISet) ForEach(f func(uint64) bool) {
	for _, v := range s.iv {
		for x := v.Lo; ; x++ {
			if !f(x) {
				return
			}
			if x == v.Hi {
				break
			}
		}
	}
}

// Hash is an order-sensitive FNV-style hash of the interval list.
func (s *ISet) Hash() uint64 {
	h := uint64(1469598103934665603)
	for _, v := range s.iv {
		h = hstep(h, v.Lo)
		h = hstep(h, v.Hi)
	}
	return h
}

// String renders at most 12 intervals; used in witnesses.
func (s *ISet) String() string {
	var sb strings.Builder
	fmt.Fprintf(&sb, "{card=%d ivs=%d:", s.Card(), len(s.iv))
	for i, v := range s.iv {
		if i == 12 {
			sb.WriteString(" …")
			break
		}
		if v.Lo == v.Hi {
			fmt.Fprintf(&sb, " %d", v.Lo)
		} else {
			fmt.Fprintf(&sb, " [%d,%d]", v.Lo, v.Hi)
		}
	}
	sb.WriteString("}")
	return sb.String()
}

// Full lists all intervals (for replay files).
func (s *ISet) Full() [][2]uint64 {
	out := make([][2]uint64, len(s.iv))
	for i, v := range s.iv {
		out[i] = [2]uint64{v.Lo, v.Hi}
	}
	return out
}

// FirstDiff returns the smallest value whose membership differs between s and o.
func (s *ISet) FirstDiff(o *ISet) (uint64, bool) {
	x := s.Xor(o)
	return x.Min()
}

// wellFormed checks the representation invariant of the model itself.
func (s *ISet) wellFormed() bool {
	for i, v := range s.iv {
		if v.Lo > v.Hi {
			return false
		}
		if i > 0 && (s.iv[i-1].Hi == maxU64 || s.iv[i-1].Hi+1 >= v.Lo) {
			return false
		}
	}
	return true
}
