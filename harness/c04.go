package main

import (
	"sort"

	"github.com/RoaringBitmap/roaring/v2"
)

func init() {
	register(&Property{
		ID: "C04", Level: "exploration", Builds: []string{"plain"},
		Rule:        "cases = generated bitmaps (all chunk archetypes, 11 storage forms, gaps between keys, runs ending at 65535, key 0xFFFF) each driven through 9 protocol drivers with random call interleavings: Iterator {HasNext,Next,PeekNext,AdvanceIfNeeded(m)} with m <= current / inside chunk / in a gap key / beyond max; ReverseIterator; ManyIterator.NextMany/NextMany64 with buffer-length sequences over {0,1,2,3,4,5,63,64,65,4095,4096,65535,65536,65537,random}; Iterate/Values/Backward/Ranges/Unset with early termination at index j; UnsetIterator(a,b) windows (mid-chunk start, end at chunk edge, end=2^32, a=b, inside a full chunk, over absent keys, across key 0xFFFF) with Peek/Advance interleavings; re-Initialize of the exported iterator types on a second bitmap. Oracle = cursor over the interval-set model (complement computed lazily). Logical bound: a protocol that yields more than |L|+1 values is a violation. Plus ALL NextMany buffer-length pairs <= 5 on boundary sets. Non-trivial: non-empty bitmap; distinct = hash(set, form, driver choices). A stored sequence value (Values, Backward, Ranges, Unset) is ranged over a second time after an early break and must start from the beginning again.",
		Assumptions: []string{"interval-set model validated by selfcheck", "calling Next/PeekNext when HasNext is false is out of domain", "Iterate's order is not specified by its documentation: only the multiset and the stop request are checked"},
		Units: []Unit{
			{Name: "protocols", Quick: 3000, Thorough: 150000, Run: c04Protocols},
			{Name: "exhaustive-nextmany-buffers", ExhaustiveN: func(string) int { return 36 * 256 }, RunIndexed: c04ExhMany},
			{Name: "protocols-over-unions-of-adjacent-pieces", Quick: 2500, Thorough: 100000, Run: c04OverResults},
		},
	})
}

func c04Protocols(c *Ctx) {
	r := c.R
	o := GenOpts{MaxChunks: 6, HeavyP: 0.3}
	if r.Chance(0.1) {
		o = GenOpts{MaxChunks: 30, HeavyP: 0.05}
	}
	m, archs := genSet(r, o)
	form := ownedForms[r.Intn(len(ownedForms))]
	bm, es := buildForm(r, m, form)
	c.Step("bitmap form=%s archetypes=%v set=%v", form, archs, descSet(m))
	if es != "" {
		c.Fail("build/"+form, "%s", es)
		return
	}
	if !m.IsEmpty() {
		c.Distinct(mix(m.Hash(), mix(hashStr(form), c.CaseSeed)))
	}
	h0 := storageHash(bm.B)
	driveIterator(c, bm.B.Iterator(), m, "Iterator")
	driveReverse(c, bm.B.ReverseIterator(), m, "ReverseIterator")
	driveMany(c, bm.B.ManyIterator(), m, "ManyIterator")
	driveFuncs(c, bm.B, m)
	driveUnset(c, bm.B, m)
	// exported iterator types re-initialised on a second bitmap
	if !c.Failed() {
		m2, _ := genSet(r, GenOpts{MaxChunks: 3, HeavyP: 0.3})
		b2, es := buildForm(r, m2, formsNoZC[r.Intn(len(formsNoZC))])
		if es == "" {
			c.Step("re-Initialize exported iterator types on a second bitmap %v", descSet(m2))
			var it roaring.IntIterator
			it.Initialize(bm.B)
			for i := 0; i < r.Intn(5) && it.HasNext(); i++ {
				it.Next()
			}
			it.Initialize(b2.B)
			driveIterator(c, &it, m2, "IntIterator.Initialize")
			var rit roaring.IntReverseIterator
			rit.Initialize(bm.B)
			for i := 0; i < r.Intn(5) && rit.HasNext(); i++ {
				rit.Next()
			}
			rit.Initialize(b2.B)
			driveReverse(c, &rit, m2, "IntReverseIterator.Initialize")
			var mit roaring.ManyIntIterator
			mit.Initialize(bm.B)
			mit.NextMany(make([]uint32, r.Intn(7)))
			mit.Initialize(b2.B)
			driveMany(c, &mit, m2, "ManyIntIterator.Initialize")
		}
	}
	if storageHash(bm.B) != h0 {
		c.Fail("iteration/modified-bitmap", "an iteration protocol changed the raw storage of the bitmap")
	}
	c.Sample(map[string]any{"unit": "protocols", "case_seed": c.CaseSeed, "form": form, "archetypes": archs, "set": descSet(m)})
}

// advanceTarget picks an AdvanceIfNeeded argument relative to the cursor.
func advanceTarget(r *Rng, m *ISet, cur uint64) uint64 {
	switch r.Intn(8) {
	case 0: // <= current
		if cur == 0 {
			return 0
		}
		return r.Range(0, cur)
	case 1: // slightly ahead
		return minU(max32, cur+r.Range(0, 100))
	case 2: // end of a run / chunk
		return minU(max32, cur|0xFFFF)
	case 3: // start of the next chunk, maybe a gap key
		return minU(max32, ((cur>>16)+1+r.Range(0, 2))<<16)
	case 4: // beyond max
		if mx, ok := m.Max(); ok && mx < max32 {
			return mx + 1 + r.Range(0, minU(1000, max32-mx-1))
		}
		return max32
	case 5:
		return max32
	default:
		v := edgeVal32(r, m)
		return v
	}
}

func driveIterator(c *Ctx, it roaring.IntPeekable, m *ISet, name string) {
	r := c.R
	c.Step("%s with random HasNext/Next/PeekNext/AdvanceIfNeeded", name)
	cur := uint64(0) // every element < cur has been consumed or skipped
	done := false    // the cursor moved past max32
	yielded := uint64(0)
	card := m.Card()
	steps := 40 + r.Intn(300)
	c.Guard(name, func() {
		for i := 0; i < steps && !c.Failed(); i++ {
			nx, has := uint64(0), false
			if !done {
				nx, has = m.Next(cur)
			}
			act := r.Intn(10)
			switch {
			case act < 2:
				if g := it.HasNext(); g != has {
					c.Fail(name+"/HasNext", "HasNext=%v but the model says %v (cursor %d, set %s)", g, has, cur, m)
				}
			case act < 6:
				if !has {
					if it.HasNext() {
						c.Fail(name+"/HasNext", "HasNext=true after the last element (cursor %d, set %s)", cur, m)
					}
					continue
				}
				g := uint64(it.Next())
				yielded++
				if g != nx {
					c.Fail(name+"/Next", "Next=%d want %d (cursor %d, set %s)", g, nx, cur, m)
				}
				if nx == max32 {
					done = true
				} else {
					cur = nx + 1
				}
			case act < 8:
				if !has {
					continue
				}
				if g := uint64(it.PeekNext()); g != nx {
					c.Fail(name+"/PeekNext", "PeekNext=%d but Next would be %d (cursor %d)", g, nx, cur)
				}
			default:
				t := advanceTarget(r, m, cur)
				c.Step("  %s.AdvanceIfNeeded(%d) at cursor %d", name, t, cur)
				it.AdvanceIfNeeded(uint32(t))
				if t > cur {
					cur = t
				}
			}
			c.Eval(1)
			if yielded > card+1 {
				c.Fail(name+"/too-many", "yielded %d values from a bitmap of cardinality %d", yielded, card)
			}
		}
		// drain when affordable
		if c.Failed() {
			return
		}
		rest := uint64(0)
		if !done {
			rest = m.CountRange(cur, max32)
		}
		if rest <= 70000 {
			var want []uint64
			if !done {
				want = m.Restrict(cur, max32).Values()
			}
			k := 0
			for it.HasNext() {
				g := uint64(it.Next())
				if k >= len(want) || g != want[k] {
					c.Fail(name+"/drain", "while draining: got %d at position %d, want %v (remaining %d)", g, k, nth(want, k), len(want))
					return
				}
				k++
			}
			if k != len(want) {
				c.Fail(name+"/drain-short", "iterator ended after %d of %d remaining values", k, len(want))
			}
			c.Eval(int64(k) + 1)
		}
	})
}

func nth(a []uint64, k int) any {
	if k < len(a) {
		return a[k]
	}
	return "nothing (end of sequence)"
}

func driveReverse(c *Ctx, it roaring.IntIterable, m *ISet, name string) {
	c.Step("%s", name)
	card := m.Card()
	c.Guard(name, func() {
		limit := uint64(70000)
		ivs := m.Intervals()
		k := uint64(0)
		for i := len(ivs) - 1; i >= 0 && k < limit; i-- {
			for x := ivs[i].Hi; k < limit; x-- {
				if !it.HasNext() {
					c.Fail(name+"/HasNext", "HasNext=false with %d of %d values yielded", k, card)
					return
				}
				if g := uint64(it.Next()); g != x {
					c.Fail(name+"/Next", "Next=%d want %d (position %d from the top, set %s)", g, x, k, m)
					return
				}
				k++
				if x == ivs[i].Lo {
					break
				}
			}
		}
		if k == card && it.HasNext() {
			c.Fail(name+"/HasNext", "HasNext=true after all %d values", card)
		}
		c.Eval(int64(k) + 1)
	})
}

var manyLens = []int{0, 1, 2, 3, 4, 5, 63, 64, 65, 4095, 4096, 65535, 65536, 65537}

func driveMany(c *Ctx, it roaring.ManyIntIterable, m *ISet, name string) {
	r := c.R
	card := m.Card()
	use64 := r.Chance(0.4)
	hs64 := uint64(0)
	if use64 {
		hs64 = r.Range(0, 1<<20) << 32
	}
	c.Step("%s NextMany (64-bit variant=%v hs=%d)", name, use64, hs64)
	c.Guard(name, func() {
		pos := uint64(0) // number of values consumed
		cur := newCursor(m)
		budget := uint64(300000)
		zeroStreak := 0
		for calls := 0; calls < 400 && pos < budget; calls++ {
			n := manyLens[r.Intn(len(manyLens))]
			if r.Chance(0.3) {
				n = r.Intn(70000)
			}
			var got []uint64
			var ret int
			if use64 {
				buf := make([]uint64, n)
				ret = it.NextMany64(hs64, buf)
				if ret < 0 || ret > n {
					c.Fail(name+"/NextMany64/return", "NextMany64 returned %d for a buffer of %d", ret, n)
					return
				}
				got = buf[:ret]
			} else {
				buf := make([]uint32, n)
				ret = it.NextMany(buf)
				if ret < 0 || ret > n {
					c.Fail(name+"/NextMany/return", "NextMany returned %d for a buffer of %d", ret, n)
					return
				}
				for _, v := range buf[:ret] {
					got = append(got, uint64(v))
				}
			}
			remaining := card - pos
			wantN := uint64(n)
			if remaining < wantN {
				wantN = remaining
			}
			if uint64(ret) != wantN {
				// a short, non-final batch is tolerated by the property text only if nothing is lost;
				// returning 0 with values left means the consumer stops early: omission.
				if ret == 0 && n > 0 && remaining > 0 {
					c.Fail(name+"/NextMany/omission", "NextMany returned 0 for a buffer of %d with %d values left (consumed %d of %d)", n, remaining, pos, card)
					return
				}
				if uint64(ret) > wantN {
					c.Fail(name+"/NextMany/too-many", "NextMany returned %d values with only %d left", ret, remaining)
					return
				}
				c.Count("nextmany_short_batches")
			}
			for i, g := range got {
				w, ok := cur.next()
				if !ok || g != (w|hs64) {
					c.Fail(name+"/NextMany/value", "batch value %d (overall index %d) = %d, want %d (ok=%v, buffer %d, set %s)", i, pos+uint64(i), g, w|hs64, ok, n, m)
					return
				}
			}
			pos += uint64(ret)
			c.Eval(int64(ret) + 1)
			if ret == 0 && n > 0 {
				zeroStreak++
				if zeroStreak > 2 {
					break
				}
			}
		}
		if pos > card {
			c.Fail(name+"/too-many", "yielded %d values from a bitmap of cardinality %d", pos, card)
		}
	})
}

func driveFuncs(c *Ctx, b *roaring.Bitmap, m *ISet) {
	r := c.R
	card := m.Card()
	small := card <= 70000
	// Iterate: multiset + stop
	c.Step("Iterate with early stop")
	c.Guard("Iterate", func() {
		stopAt := int64(-1)
		if card > 0 && r.Chance(0.7) {
			stopAt = int64(r.U64n(minU(card, 50000)))
		}
		if !small && stopAt < 0 {
			stopAt = int64(r.U64n(50000))
		}
		var got []uint64
		calls := int64(0)
		stopped := false
		b.Iterate(func(x uint32) bool {
			if stopped {
				c.Fail("Iterate/continues-after-stop", "callback invoked again after it returned false")
				return false
			}
			got = append(got, uint64(x))
			calls++
			if stopAt >= 0 && calls-1 == stopAt {
				stopped = true
				return false
			}
			if uint64(calls) > card+1 {
				stopped = true
				return false
			}
			return true
		})
		seen := map[uint64]bool{}
		for _, g := range got {
			if !m.Contains(g) {
				c.Fail("Iterate/value", "Iterate yielded %d which is not an element", g)
				return
			}
			if seen[g] {
				c.Fail("Iterate/duplicate", "Iterate yielded %d twice", g)
				return
			}
			seen[g] = true
		}
		if stopAt >= 0 && int64(len(got)) != stopAt+1 {
			c.Fail("Iterate/count", "Iterate yielded %d values before the stop requested at index %d", len(got), stopAt)
		}
		if stopAt < 0 && uint64(len(got)) != card {
			c.Fail("Iterate/count", "Iterate yielded %d values, cardinality %d", len(got), card)
		}
		c.Eval(int64(len(got)) + 1)
	})
	// Values / Backward with break
	for _, dir := range []string{"Values", "Backward"} {
		c.Step("%s with break", dir)
		c.Guard(dir, func() {
			stopAt := int64(-1)
			if !small || r.Chance(0.6) {
				stopAt = int64(r.U64n(minU(card+1, 50000)))
			}
			k := int64(0)
			seq := roaring.Values(b)
			if dir == "Backward" {
				seq = roaring.Backward(b)
			}
			for x := range seq {
				var w uint64
				var ok bool
				if dir == "Values" {
					w, ok = m.Select(uint64(k))
				} else {
					w, ok = m.Select(card - 1 - uint64(k))
					ok = ok && uint64(k) < card
				}
				if !ok || uint64(x) != w {
					c.Fail(dir+"/value", "%s yielded %d at index %d, want %d (ok=%v)", dir, x, k, w, ok)
					return
				}
				if k == stopAt {
					k++
					break
				}
				k++
			}
			if stopAt < 0 && uint64(k) != card {
				c.Fail(dir+"/count", "%s yielded %d values, cardinality %d", dir, k, card)
			}
			if stopAt >= 0 && uint64(stopAt) < card && k != stopAt+1 {
				c.Fail(dir+"/count", "%s yielded %d values before break at index %d", dir, k, stopAt)
			}
			c.Eval(k + 1)
			// the same sequence value is ranged over a second time: it must enumerate from the beginning again
			if small && !c.Failed() {
				j := uint64(0)
				for x := range seq {
					w, ok := m.Select(j)
					if dir == "Backward" {
						w, ok = m.Select(card - 1 - j)
						ok = ok && j < card
					}
					if !ok || uint64(x) != w {
						c.Fail(dir+"/second-range-over-the-same-sequence", "ranging a second time over the same %s sequence (first traversal stopped at index %d) yielded %d at index %d, want %d", dir, stopAt, x, j, w)
						return
					}
					j++
				}
				if j != card {
					c.Fail(dir+"/second-range-over-the-same-sequence", "ranging a second time over the same %s sequence yielded %d values, cardinality %d", dir, j, card)
				}
				c.Eval(int64(j))
			}
		})
	}
	// Ranges
	c.Step("Ranges with break")
	c.Guard("Ranges", func() {
		ivs := m.Intervals()
		stopAt := -1
		if len(ivs) > 0 && r.Chance(0.4) {
			stopAt = r.Intn(len(ivs))
		}
		k := 0
		rseq := b.Ranges()
		defer func() {
			if c.Failed() || len(ivs) > 70000 {
				return
			}
			j := 0
			for s, e := range rseq {
				if j >= len(ivs) || uint64(s) != ivs[j].Lo || e != ivs[j].Hi+1 {
					c.Fail("Ranges/second-range-over-the-same-sequence", "ranging a second time over the same Ranges sequence yielded [%d,%d) at index %d", s, e, j)
					return
				}
				j++
			}
			if j != len(ivs) {
				c.Fail("Ranges/second-range-over-the-same-sequence", "ranging a second time over the same Ranges sequence yielded %d intervals, want %d", j, len(ivs))
			}
		}()
		for s, e := range rseq {
			if k >= len(ivs) {
				c.Fail("Ranges/extra", "Ranges yielded [%d,%d) after all %d maximal intervals", s, e, len(ivs))
				return
			}
			if uint64(s) != ivs[k].Lo || e != ivs[k].Hi+1 {
				c.Fail("Ranges/value", "Ranges yielded [%d,%d) at index %d, want [%d,%d) (maximal interval of the set)", s, e, k, ivs[k].Lo, ivs[k].Hi+1)
				return
			}
			if k == stopAt {
				k++
				break
			}
			k++
		}
		if stopAt < 0 && k != len(ivs) {
			c.Fail("Ranges/count", "Ranges yielded %d intervals, want %d", k, len(ivs))
		}
		if stopAt >= 0 && k != stopAt+1 {
			c.Fail("Ranges/count", "Ranges yielded %d intervals before break at %d", k, stopAt)
		}
		c.Eval(int64(k) + 1)
	})
}

// genWindow picks [a,b) with 0<=a<=b<=2^32.
func genWindow(r *Rng, m *ISet) (uint64, uint64) {
	a := edgeVal32(r, m)
	var b uint64
	switch r.Intn(9) {
	case 0:
		b = a // empty window
	case 1:
		b = (a | 0xFFFF) + 1 // ends at the chunk edge
	case 2:
		b = 1 << 32
	case 3:
		b = a + 1 + r.Range(0, 300)
	case 4:
		b = a + 1 + r.Range(0, 3*65536)
	case 5:
		a = a &^ 0xFFFF
		b = a + 65536*(1+r.Range(0, 3))
	case 6: // across key 0xFFFF
		a = 0xFFFE0000 + edgeVal16(r)
		b = 1 << 32
	case 7:
		a = 0
		b = edgeVal32(r, m) + 1
	default:
		b = edgeVal32(r, m)
		if b < a {
			a, b = b, a
		}
	}
	if b > 1<<32 {
		b = 1 << 32
	}
	if a > b {
		a = b
	}
	return a, b
}

func driveUnset(c *Ctx, b *roaring.Bitmap, m *ISet) {
	r := c.R
	for rep := 0; rep < 3 && !c.Failed(); rep++ {
		lo, hi := genWindow(r, m)
		c.Step("UnsetIterator(%d,%d) with random HasNext/Next/PeekNext/AdvanceIfNeeded", lo, hi)
		name := "UnsetIterator"
		c.Guard(name, func() {
			it := b.UnsetIterator(lo, hi)
			cur := lo
			steps := 40 + r.Intn(400)
			for i := 0; i < steps && !c.Failed(); i++ {
				var nx uint64
				has := false
				if cur < hi {
					nx, has = m.NextAbsent(cur, hi-1)
				}
				act := r.Intn(10)
				switch {
				case act < 2:
					if g := it.HasNext(); g != has {
						c.Fail(name+"/HasNext", "HasNext=%v but the model says %v (window [%d,%d) cursor %d set %s)", g, has, lo, hi, cur, m)
					}
				case act < 6:
					if !has {
						if it.HasNext() {
							c.Fail(name+"/HasNext", "HasNext=true but no absent value is left in [%d,%d) from cursor %d (set %s)", lo, hi, cur, m)
						}
						continue
					}
					g := uint64(it.Next())
					if g != nx {
						c.Fail(name+"/Next", "Next=%d want %d (window [%d,%d) cursor %d set %s)", g, nx, lo, hi, cur, m)
					}
					cur = nx + 1
				case act < 8:
					if !has {
						continue
					}
					if g := uint64(it.PeekNext()); g != nx {
						c.Fail(name+"/PeekNext", "PeekNext=%d but Next would be %d (window [%d,%d) cursor %d)", g, nx, lo, hi, cur)
					}
				default:
					t := advanceTarget(r, m, cur)
					c.Step("  UnsetIterator.AdvanceIfNeeded(%d) at cursor %d", t, cur)
					it.AdvanceIfNeeded(uint32(t))
					if t > cur {
						cur = t
					}
				}
				c.Eval(1)
			}
		})
	}
	// Unset(min,max) with break: inclusive bounds
	if c.Failed() {
		return
	}
	lo, hi := genWindow(r, m)
	if hi == lo {
		hi = lo + 1
	}
	mn, mx := lo, hi-1
	c.Step("Unset(%d,%d) with break", mn, mx)
	c.Guard("Unset", func() {
		stopAt := int64(r.Intn(3000))
		cur := mn
		k := int64(0)
		useq := roaring.Unset(b, uint32(mn), uint32(mx))
		defer func() {
			// the same sequence value ranged over a second time starts at the beginning of the window again
			if c.Failed() {
				return
			}
			cur2 := mn
			for x := range useq {
				nx, has := uint64(0), false
				if cur2 <= mx {
					nx, has = m.NextAbsent(cur2, mx)
				}
				if !has || uint64(x) != nx {
					c.Fail("Unset/second-range-over-the-same-sequence", "ranging a second time over the same Unset(%d,%d) sequence yielded %d, want %d (has=%v)", mn, mx, x, nx, has)
					return
				}
				cur2 = nx + 1
				if cur2-mn > 5000 {
					return
				}
			}
			if cur2 <= mx {
				if nx, has := m.NextAbsent(cur2, mx); has && nx-mn <= 5000 {
					c.Fail("Unset/second-range-over-the-same-sequence", "ranging a second time over the same Unset(%d,%d) sequence ended early: %d is absent from the bitmap", mn, mx, nx)
				}
			}
		}()
		for x := range useq {
			nx, has := uint64(0), false
			if cur <= mx {
				nx, has = m.NextAbsent(cur, mx)
			}
			if !has || uint64(x) != nx {
				c.Fail("Unset/value", "Unset(%d,%d) yielded %d at index %d, want %d (has=%v) set %s", mn, mx, x, k, nx, has, m)
				return
			}
			cur = nx + 1
			if k == stopAt {
				return
			}
			k++
		}
		if cur <= mx {
			if nx, has := m.NextAbsent(cur, mx); has {
				c.Fail("Unset/omission", "Unset(%d,%d) ended after %d values but %d is absent from the bitmap", mn, mx, k, nx)
			}
		}
		c.Eval(k + 1)
	})
}

// c04ExhMany: all pairs of buffer lengths (a,b) in 0..5 alternating, on all subsets of the boundary domain.
func c04ExhMany(c *Ctx, index int) {
	mask := index % 256
	pair := index / 256
	la, lb := pair/6, pair%6
	m := subsetOf(c01Dom, mask)
	form := []string{"add", "opt"}[index%2]
	bm, es := buildForm(c.R, m, form)
	if es != "" {
		c.Fail("build/"+form, "%s", es)
		return
	}
	c.Step("subset=%v form=%s buffer lengths alternate %d,%d", m.Full(), form, la, lb)
	if la == 0 && lb == 0 {
		return
	}
	c.Guard("ManyIterator/exh", func() {
		it := bm.B.ManyIterator()
		want := m.Values()
		var got []uint64
		for i := 0; i < 40; i++ {
			n := la
			if i%2 == 1 {
				n = lb
			}
			buf := make([]uint32, n)
			ret := it.NextMany(buf)
			for _, v := range buf[:ret] {
				got = append(got, uint64(v))
			}
			if n > 0 && ret == 0 {
				break
			}
		}
		if len(got) != len(want) {
			c.Fail("ManyIterator/exh/count", "NextMany with buffers %d,%d yielded %v, want %v", la, lb, got, want)
			return
		}
		for i := range got {
			if got[i] != want[i] {
				c.Fail("ManyIterator/exh/value", "NextMany with buffers %d,%d yielded %v, want %v", la, lb, got, want)
				return
			}
		}
		c.Eval(int64(len(want)) + 1)
	})
	if mask != 0 {
		c.Distinct(uint64(index))
	}
	_ = sort.Ints
}

// mcursor walks the elements of a model in increasing order in O(1) per element.
type mcursor struct {
	m *ISet
	i int
	x uint64
}

func newCursor(m *ISet) *mcursor {
	c := &mcursor{m: m}
	if len(m.iv) > 0 {
		c.x = m.iv[0].Lo
	}
	return c
}

func (c *mcursor) next() (uint64, bool) {
	if c.i >= len(c.m.iv) {
		return 0, false
	}
	v := c.x
	if v == c.m.iv[c.i].Hi {
		c.i++
		if c.i < len(c.m.iv) {
			c.x = c.m.iv[c.i].Lo
		}
	} else {
		c.x++
	}
	return v, true
}

// c04OverResults drives the iteration protocols over bitmaps that are RESULTS of unions whose operands are
// pieces lying next to each other inside one chunk (touching, overlapping by one, one apart, interleaved),
// in every kind pairing and operand order, static and in place (the in-place receiver keeps the spare
// capacity its tables got from being built piece by piece). The protocols rely on representation invariants
// (runs sorted, disjoint, non-adjacent) that the algebra has to re-establish on exactly such inputs.
func c04OverResults(c *Ctx) {
	r := c.R
	key := genKeys(r, 1)[0]
	base := key << 16
	// lower piece L ends at e, upper piece U starts at e+delta
	e := r.Range(3, 60000)
	delta := []uint64{1, 1, 1, 0, 2}[r.Intn(5)]
	mkLower := func() *ISet {
		s := NewISet()
		switch r.Intn(4) {
		case 0:
			s.Add(e) // single value
		case 1:
			s.AddRange(e-minU(e, r.Range(1, 400)), e) // one run ending at e
		case 2:
			s.Add(e)
			for i := 0; i < 1+r.Intn(6); i++ {
				s.Add(r.Range(0, e))
			}
		default:
			s.AddRange(e-minU(e, r.Range(0, 30)), e)
			lo := e - minU(e, r.Range(40, 900))
			s.AddRange(lo, lo+r.Range(0, 8))
		}
		return s
	}
	mkUpper := func() *ISet {
		s := NewISet()
		st := e + delta
		switch r.Intn(3) {
		case 0:
			s.AddRange(st, st+r.Range(0, 3000))
		case 1:
			s.AddRange(st, st+r.Range(0, 40))
			x := st + 60 + r.Range(0, 500)
			s.AddRange(x, x+r.Range(0, 100))
			x += 200 + r.Range(0, 500)
			s.AddRange(x, x+r.Range(0, 100))
		default:
			s.Add(st)
			for i := 0; i < r.Intn(5); i++ {
				s.Add(st + r.Range(2, 4000))
			}
		}
		return ivsToSet(s.Restrict(0, 65535).iv)
	}
	L, U := mkLower(), mkUpper()
	sh := func(s *ISet) *ISet { return ivsToSet(shiftIVs(s.iv, base)) }
	mL, mU := sh(L), sh(U)
	want := mL.Or(mU)
	// builders: piece by piece (append growth), ranges as runs, optionally run-optimized
	mk := func(m *ISet, style int) *roaring.Bitmap {
		b := roaring.New()
		for _, v := range m.Intervals() {
			if v.Lo == v.Hi && style != 2 {
				b.Add(uint32(v.Lo))
			} else {
				b.AddRange(v.Lo, v.Hi+1)
			}
		}
		if style == 1 {
			b.RunOptimize()
		}
		return b
	}
	sL, sU := r.Intn(3), r.Intn(3)
	c.Step("lower piece %v (style %d), upper piece %v (style %d), delta=%d", descSet(mL), sL, descSet(mU), sU, delta)
	c.Distinct(mix(mix(mL.Hash(), mU.Hash()), uint64(sL*3+sU)))
	type mkres struct {
		name string
		f    func() *roaring.Bitmap
	}
	results := []mkres{
		{"Or(upper,lower)", func() *roaring.Bitmap { return roaring.Or(mk(mU, sU), mk(mL, sL)) }},
		{"Or(lower,upper)", func() *roaring.Bitmap { return roaring.Or(mk(mL, sL), mk(mU, sU)) }},
		{"upper.Or(lower)", func() *roaring.Bitmap { b := mk(mU, sU); b.Or(mk(mL, sL)); return b }},
		{"lower.Or(upper)", func() *roaring.Bitmap { b := mk(mL, sL); b.Or(mk(mU, sU)); return b }},
		{"FastOr(upper,lower,upper)", func() *roaring.Bitmap { u := mk(mU, sU); return roaring.FastOr(u, mk(mL, sL), u) }},
		{"HeapOr(lower,upper)", func() *roaring.Bitmap { return roaring.HeapOr(mk(mL, sL), mk(mU, sU)) }},
		{"upper.AddRange(lower pieces)", func() *roaring.Bitmap {
			b := mk(mU, sU)
			for _, v := range mL.Intervals() {
				b.AddRange(v.Lo, v.Hi+1)
			}
			return b
		}},
		{"Xor(upper,lower) (disjoint pieces)", func() *roaring.Bitmap {
			if delta == 0 {
				return roaring.Or(mk(mU, sU), mk(mL, sL))
			}
			return roaring.Xor(mk(mU, sU), mk(mL, sL))
		}},
	}
	pick := r.Perm(len(results))[:3]
	for _, i := range pick {
		if c.Failed() {
			return
		}
		var res *roaring.Bitmap
		c.Step("result of %s", results[i].name)
		if c.Guard("results/"+results[i].name, func() { res = results[i].f() }) {
			return
		}
		c.Count("result_via_" + results[i].name)
		if d := checkEq(res, want); d != "" {
			c.Fail("results/content", "%s: %s", results[i].name, d)
			return
		}
		countKinds(c, "result_chunk_", res)
		driveIterator(c, res.Iterator(), want, "Iterator")
		driveReverse(c, res.ReverseIterator(), want, "ReverseIterator")
		driveMany(c, res.ManyIterator(), want, "ManyIterator")
		driveFuncs(c, res, want)
		driveUnset(c, res, want)
		// windows that start inside the lower piece and end inside the upper one
		if !c.Failed() {
			lo, _ := want.Min()
			hi, _ := want.Max()
			c.Guard("Unset/around-the-seam", func() {
				cur := lo
				for x := range roaring.Unset(res, uint32(lo), uint32(minU(max32, hi+3))) {
					nx, has := want.NextAbsent(cur, minU(max32, hi+3))
					if !has || uint64(x) != nx {
						c.Fail("Unset/value", "Unset over [%d,%d] of %s yielded %d, want %d (has=%v); set %s", lo, hi+3, results[i].name, x, nx, has, want)
						return
					}
					cur = nx + 1
				}
				if nx, has := want.NextAbsent(cur, minU(max32, hi+3)); has && cur <= minU(max32, hi+3) {
					c.Fail("Unset/omission", "Unset over [%d,%d] of %s ended before %d", lo, hi+3, results[i].name, nx)
				}
				c.Eval(1)
			})
		}
	}
	c.Sample(map[string]any{"unit": "protocols-over-unions-of-adjacent-pieces", "case_seed": c.CaseSeed, "lower": descSet(mL), "upper": descSet(mU), "delta": delta})
}
