package main

func init() {
	register(&Property{
		ID: "C14", Level: "exploration", Builds: []string{"plain"},
		Rule:        "cases = population histories and single-bitmap histories biased to fragment runs (range-then-punch-holes, flips, algebra between run-heavy operands); after every step, for every live bitmap with N elements and maximum mx: GetSerializedSizeInBytes (and, every 8th step, len(ToBytes()) which must agree) is compared with 8+9*ceil(x/65536)+2N and with BoundSerializedSizeInBytes(N,x) for x in {mx+1, next chunk edge, 2^32}, before and after RunOptimize. Non-trivial: non-empty bitmaps; distinct = hash of the step list.",
		Assumptions: []string{"both bounds hold for canonical representations (checked on paper), so the check cannot alarm on a correct tree"},
		Units: []Unit{
			{Name: "population", Quick: 1500, Thorough: 80000, Run: c14Pop},
			{Name: "run-fragmenting-histories", Quick: 1500, Thorough: 80000, Run: c14RunHist},
		},
	})
}

func c14Pop(c *Ctx) {
	p := newPop(c, PopMode{SizeBound: true, RunBias: c.R.Chance(0.6)})
	steps := 40 + c.R.Intn(50)
	for i := 0; i < steps; i++ {
		if !p.Step() {
			break
		}
		if i%8 == 7 {
			k := p.pick()
			bm := p.live[k]
			buf, err := bm.B.ToBytes()
			if err != nil {
				c.Fail("size/ToBytes-error/after-"+p.lastOp, "ToBytes failed: %v", err)
				break
			}
			if uint64(len(buf)) != bm.B.GetSerializedSizeInBytes() {
				c.Fail("size/ToBytes-vs-GetSerializedSizeInBytes", "len(ToBytes)=%d GetSerializedSizeInBytes=%d", len(buf), bm.B.GetSerializedSizeInBytes())
				break
			}
			cl := bm.B.Clone()
			cl.RunOptimize()
			if !sizeBoundOracle(c, &BM{B: cl, M: bm.M}, "after-RunOptimize", p.name(k)) {
				break
			}
		}
	}
	c.Distinct(p.h)
	c.Sample(map[string]any{"unit": "population", "case_seed": c.CaseSeed, "steps": firstN(c.hist, 14)})
}

func c14RunHist(c *Ctx) {
	r := c.R
	m := NewISet()
	for _, k := range genKeys(r, 1+r.Intn(2)) {
		a := []string{"oneRun", "fewRuns", "manyShortRuns", "runsTouchEdges", "full", "fullMinusFew", "arr4096runs", "tiny"}[r.Intn(8)]
		for _, v := range genChunk(r, a) {
			m.AddRange(k<<16|v.Lo, k<<16|v.Hi)
		}
	}
	bm, es := buildForm(r, m, []string{"range", "opt", "addmany"}[r.Intn(3)])
	if es != "" {
		c.Fail("build", "%s", es)
		return
	}
	c.Step("start form=%s set=%v", bm.Form, descSet(m))
	h := m.Hash()
	for i := 0; i < 60 && !c.Failed(); i++ {
		op := mutateStep(c, bm, MutOpts{Light: true, NoClone: true, OnlyOps: []string{"AddRange", "RemoveRange", "Flip", "Add", "Remove", "CheckedRemove", "AddMany", "RunOptimize"}})
		if c.Failed() {
			return
		}
		if d := checkEq(bm.B, bm.M); d != "" {
			c.Fail("content/after-"+op, "%s", d)
			return
		}
		if !sizeBoundOracle(c, bm, "after-"+op, "b") {
			return
		}
		h = mix(h, hashStr(c.hist[len(c.hist)-1]))
	}
	c.Distinct(h)
}
