package main

import "github.com/RoaringBitmap/roaring/v2"

func init() {
	register(&Property{
		ID: "C14", Level: "exploration", Builds: []string{"plain"},
		Rule:        "cases = population histories and single-bitmap histories biased to fragment runs (range-then-punch-holes, flips, algebra between run-heavy operands); after every step, for every live bitmap with N elements and maximum mx: GetSerializedSizeInBytes (and, every 8th step, len(ToBytes()) which must agree) is compared with 8+9*ceil(x/65536)+2N and with BoundSerializedSizeInBytes(N,x) for x in {mx+1, next chunk edge, 2^32}, before and after RunOptimize. Non-trivial: non-empty bitmaps; distinct = hash of the step list. 70 % of the population cases live in chunks 0..3 (the bounds allow 9 bytes per possible chunk below the maximum); threshold-cardinality-targets with the chunk at key 0.",
		Assumptions: []string{"both bounds hold for canonical representations (checked on paper), so the check cannot alarm on a correct tree"},
		Units: []Unit{
			{Name: "population", Quick: 1500, Thorough: 80000, Run: c14Pop},
			{Name: "run-fragmenting-histories", Quick: 1500, Thorough: 80000, Run: c14RunHist},
			{Name: "dense-low-keys-small-chunks", Quick: 1500, Thorough: 80000, Run: c14DenseLowKeys},
			{Name: "andany-then-removals", Quick: 1500, Thorough: 60000, Run: c11AndAnyScratch},
			{Name: "threshold-cardinality-targets", Quick: 1500, Thorough: 60000, Run: func(c *Ctx) { thresholdTargets(c, true) }},
		},
	})
}

func c14Pop(c *Ctx) {
	p := newPop(c, PopMode{SizeBound: true, RunBias: c.R.Chance(0.6)})
	steps := 40 + c.R.Intn(50)
	for i := 0; i < steps; i++ {
		if !p.Step() {
			break
		}
		if i%8 == 7 {
			k := p.pick()
			bm := p.live[k]
			buf, err := bm.B.ToBytes()
			if err != nil {
				c.Fail("size/ToBytes-error/after-"+p.lastOp, "ToBytes failed: %v", err)
				break
			}
			if uint64(len(buf)) != bm.B.GetSerializedSizeInBytes() {
				c.Fail("size/ToBytes-vs-GetSerializedSizeInBytes", "len(ToBytes)=%d GetSerializedSizeInBytes=%d", len(buf), bm.B.GetSerializedSizeInBytes())
				break
			}
			cl := bm.B.Clone()
			cl.RunOptimize()
			if !sizeBoundOracle(c, &BM{B: cl, M: bm.M}, "after-RunOptimize", p.name(k)) {
				break
			}
		}
	}
	c.Distinct(p.h)
	c.Sample(map[string]any{"unit": "population", "case_seed": c.CaseSeed, "steps": firstN(c.hist, 14)})
}

func c14RunHist(c *Ctx) {
	r := c.R
	m := NewISet()
	keys := genKeys(r, 1+r.Intn(2))
	if r.Chance(0.7) {
		keys = [][]uint64{{0}, {0, 1}, {1}}[r.Intn(3)] // low keys: the bound has no slack there
	}
	for _, k := range keys {
		a := []string{"oneRun", "fewRuns", "manyShortRuns", "runsTouchEdges", "full", "fullMinusFew", "arr4096runs", "tiny", "singletonsAndOneLongRun", "singletonsAndOneLongRun"}[r.Intn(10)]
		if a == "singletonsAndOneLongRun" {
			// a run chunk that is only worth its form because of ONE long run at its upper (or lower) end
			n := 3 + r.Intn(20)
			l := 8 + r.Range(0, 60)
			pos := r.Range(0, 100)
			atTop := r.Chance(0.6)
			if !atTop {
				m.AddRange(k<<16|pos, k<<16|(pos+l))
				pos += l + 3
			}
			for i := 0; i < n; i++ {
				m.Add(k<<16 | pos)
				pos += 2 + r.Range(0, 30)
			}
			if atTop {
				m.AddRange(k<<16|pos, k<<16|(pos+l))
			}
			continue
		}
		for _, v := range genChunk(r, a) {
			m.AddRange(k<<16|v.Lo, k<<16|v.Hi)
		}
	}
	bm, es := buildForm(r, m, []string{"range", "opt", "addmany"}[r.Intn(3)])
	if es != "" {
		c.Fail("build", "%s", es)
		return
	}
	c.Step("start form=%s set=%v", bm.Form, descSet(m))
	h := m.Hash()
	for i := 0; i < 60 && !c.Failed(); i++ {
		op := mutateStep(c, bm, MutOpts{Light: true, NoClone: true, OnlyOps: []string{"AddRange", "RemoveRange", "Flip", "Add", "Remove", "CheckedRemove", "AddMany", "RunOptimize", "TrimEnds"}})
		if c.Failed() {
			return
		}
		if d := checkEq(bm.B, bm.M); d != "" {
			c.Fail("content/after-"+op, "%s", d)
			return
		}
		if !sizeBoundOracle(c, bm, "after-"+op, "b") {
			return
		}
		h = mix(h, hashStr(c.hist[len(c.hist)-1]))
	}
	c.Distinct(h)
}

// c14DenseLowKeys makes the bound tight: all chunk keys 0..n-1 are present (so that
// ceil(x/65536) equals the number of stored chunks) and every chunk holds few values, reached by
// small range / point / flip operations and by trimming run ends, so that a per-chunk excess of one
// or two bytes is not absorbed by slack.
func c14DenseLowKeys(c *Ctx) {
	r := c.R
	n := uint64(4 + r.Intn(60))
	b := roaring.New()
	m := NewISet()
	bm := &BM{B: b, M: m}
	style := r.Intn(4)
	c.Step("dense keys 0..%d, style %d", n-1, style)
	h := mix(n, uint64(style))
	step := func(op string, f func(), upd func()) bool {
		if c.Guard("dense/"+op, f) {
			return false
		}
		upd()
		if d := checkEq(b, m); d != "" {
			c.Fail("content/after-"+op, "%s", d)
			return false
		}
		return sizeBoundOracle(c, bm, "after-"+op, "b")
	}
	for k := uint64(0); k < n; k++ {
		base := k << 16
		off := r.Range(0, 65000)
		w := []uint64{1, 2, 2, 2, 3, 4, 5}[r.Intn(7)]
		switch style {
		case 0: // small AddRange into an absent chunk
			lo := base + off
			c.Step("AddRange(%d,%d)", lo, lo+w)
			if !step("AddRange", func() { b.AddRange(lo, lo+w) }, func() { m.AddRange(lo, lo+w-1) }) {
				return
			}
		case 1: // range straddling the chunk border: few values on each side
			if k+1 < n {
				lo := base + 65536 - w
				hi := base + 65536 + []uint64{1, 2, 3}[r.Intn(3)]
				c.Step("AddRange(%d,%d)", lo, hi)
				if !step("AddRange", func() { b.AddRange(lo, hi) }, func() { m.AddRange(lo, hi-1) }) {
					return
				}
			} else {
				c.Step("Add(%d)", base+off)
				if !step("Add", func() { b.Add(uint32(base + off)) }, func() { m.Add(base + off) }) {
					return
				}
			}
		case 2: // Flip on an absent chunk
			lo := base + off
			c.Step("Flip(%d,%d)", lo, lo+w)
			if !step("Flip", func() { b.Flip(lo, lo+w) }, func() { m.FlipRange(lo, lo+w-1) }) {
				return
			}
		default: // several short runs, to be trimmed below
			for j := uint64(0); j < 3+r.Range(0, 20); j++ {
				lo := base + j*40 + r.Range(0, 5)
				m.AddRange(lo, lo+2)
				b.AddRange(lo, lo+3)
			}
		}
	}
	if style == 3 || r.Chance(0.3) {
		c.Step("RunOptimize()")
		if !step("RunOptimize", func() { b.RunOptimize() }, func() {}) {
			return
		}
	}
	// trimming phase: remove run / interval end points one by one (never a RunOptimize in between)
	rounds := 1 + r.Intn(3)
	for round := 0; round < rounds && !c.Failed(); round++ {
		front := r.Chance(0.5)
		ivs := append([]IV(nil), m.Intervals()...)
		for _, v := range ivs {
			if v.Hi == v.Lo && r.Chance(0.7) {
				continue
			}
			x := v.Hi
			if front {
				x = v.Lo
			}
			if v.Hi-v.Lo >= 2 && v.Lo>>16 >= 1 && r.Chance(0.25) {
				// a range that starts at the end of the previous chunk and trims the front of this run,
				// leaving its last 1-3 values (the multi-chunk path of RemoveRange)
				s0 := (v.Lo>>16)<<16 - 1
				e0 := v.Hi - r.Range(0, 2)
				c.Step("RemoveRange(%d,%d)", s0, e0)
				if !step("RemoveRange-across-chunks", func() { b.RemoveRange(s0, e0) }, func() { m.RemoveRange(s0, e0-1) }) {
					return
				}
				h = mix(h, e0)
				continue
			}
			op := []string{"Remove", "CheckedRemove", "RemoveRange", "Flip"}[r.Intn(4)]
			c.Step("%s(%d)", op, x)
			ok := step(op, func() {
				switch op {
				case "Remove":
					b.Remove(uint32(x))
				case "CheckedRemove":
					b.CheckedRemove(uint32(x))
				case "RemoveRange":
					b.RemoveRange(x, x+1)
				default:
					b.Flip(x, x+1)
				}
			}, func() { m.Remove(x) })
			if !ok {
				return
			}
			h = mix(h, x)
		}
	}
	c.Distinct(h)
	c.Sample(map[string]any{"unit": "dense-low-keys-small-chunks", "case_seed": c.CaseSeed, "chunks": n, "style": style, "steps": firstN(c.hist, 8)})
}
