package main

import (
	"fmt"

	"github.com/RoaringBitmap/roaring/v2"
)

func init() {
	register(&Property{
		ID: "C01", Level: "exploration", Builds: []string{"plain"},
		Rule:        "cases = seeded operand pairs (A,B) composed from 26 chunk archetypes x key-layout relations (identical, disjoint-interleaved, nested, suffix, single interior key, random; up to 60 keys) x 11 storage forms each; every case runs And/Or/Xor/AndNot in static form, in-place on a plain clone, in-place on a copy-on-write clone, directly on a zero-copy receiver, with the same object on both sides, plus AndCardinality/OrCardinality/Intersects; plus ALL ordered pairs of subsets of an 8-value boundary domain (65536 pairs) in 3 storage forms. Non-trivial: both operands non-empty; distinct = hash of (A,B,forms).",
		Assumptions: []string{"interval-set model validated by selfcheck", "operand storage forms are produced with the library itself and verified against the model before use"},
		Units: []Unit{
			{Name: "pairs", Quick: 5000, Thorough: 400000, Run: c01Pairs},
			{Name: "threshold-results", Quick: 2500, Thorough: 80000, Run: c01Threshold},
			{Name: "exhaustive-subset-pairs", ExhaustiveN: func(string) int { return 256 * 256 }, RunIndexed: c01Exh},
			{Name: "popcount-kernels", ExhaustiveN: func(string) int { return 1101 }, RunIndexed: popcountKernels},
		},
	})
}

var binOps = []string{"And", "Or", "Xor", "AndNot"}

func modelOp(op string, a, b *ISet) *ISet {
	switch op {
	case "And":
		return a.And(b)
	case "Or":
		return a.Or(b)
	case "Xor":
		return a.Xor(b)
	}
	return a.AndNot(b)
}

func staticOp(op string, a, b *roaring.Bitmap) *roaring.Bitmap {
	switch op {
	case "And":
		return roaring.And(a, b)
	case "Or":
		return roaring.Or(a, b)
	case "Xor":
		return roaring.Xor(a, b)
	}
	return roaring.AndNot(a, b)
}

func inplaceOp(op string, a, b *roaring.Bitmap) {
	switch op {
	case "And":
		a.And(b)
	case "Or":
		a.Or(b)
	case "Xor":
		a.Xor(b)
	default:
		a.AndNot(b)
	}
}

// genPairModels produces two models with a chosen key relation.
func genPairModels(r *Rng) (*ISet, *ISet, string) {
	rel := []string{"identical", "interleaved", "nested", "suffix", "interior", "random", "random", "manykeys", "near-equal"}[r.Intn(9)]
	heavy := 0.45
	n := 1 + r.Intn(5)
	if rel == "manykeys" {
		n = 18 + r.Intn(45)
		heavy = 0.05
	}
	keys := genKeys(r, n)
	var ka, kb []uint64
	switch rel {
	case "identical", "near-equal":
		ka, kb = keys, keys
	case "interleaved":
		for i, k := range keys {
			if i%2 == 0 {
				ka = append(ka, k)
			} else {
				kb = append(kb, k)
			}
		}
		if r.Chance(0.5) && len(keys) > 0 {
			kb = append(kb, keys[0]) // one common key
		}
	case "nested":
		ka = keys
		for _, k := range keys {
			if r.Chance(0.5) {
				kb = append(kb, k)
			}
		}
	case "suffix":
		ka = keys[:(len(keys)+1)/2]
		kb = keys
	case "interior":
		ka = keys
		kb = []uint64{keys[len(keys)/2]}
	default:
		for _, k := range keys {
			x := r.Intn(4)
			if x != 0 {
				ka = append(ka, k)
			}
			if x != 1 {
				kb = append(kb, k)
			}
		}
	}
	if r.Chance(0.5) {
		ka, kb = kb, ka
	}
	mk := func(ks []uint64) *ISet {
		var ivs []IV
		sortU64(ks)
		for _, k := range ks {
			var a string
			if r.Chance(heavy) {
				a = heavyArch[r.Intn(len(heavyArch))]
			} else {
				a = lightArch[r.Intn(len(lightArch))]
			}
			for _, v := range genChunk(r, a) {
				ivs = append(ivs, IV{k<<16 | v.Lo, k<<16 | v.Hi})
			}
		}
		return ivsToSet(ivs)
	}
	a := mk(ka)
	var b *ISet
	if rel == "near-equal" {
		b = a.Clone()
		for i := 0; i < 1+r.Intn(3); i++ {
			x := edgeVal32(r, a)
			if r.Chance(0.5) {
				b.Add(x)
			} else {
				b.Remove(x)
			}
		}
	} else {
		b = mk(kb)
	}
	return a, b, rel
}

func sortU64(a []uint64) {
	for i := 1; i < len(a); i++ {
		for j := i; j > 0 && a[j-1] > a[j]; j-- {
			a[j-1], a[j] = a[j], a[j-1]
		}
	}
}

// pairClass returns "<kindA>-<kindB>" at the chunk key of value d ("none" when the chunk is absent).
func pairClass(va, vb roaring.VerifView, d uint64) string {
	k := uint16(d >> 16)
	f := func(v roaring.VerifView) string {
		for _, s := range v.Slots {
			if s.Key == k {
				return kindName[s.Kind]
			}
		}
		return "none"
	}
	return f(va) + "-" + f(vb)
}

func countPairings(c *Ctx, op, form string, va, vb roaring.VerifView) {
	j := 0
	for _, sa := range va.Slots {
		for j < len(vb.Slots) && vb.Slots[j].Key < sa.Key {
			j++
		}
		if j < len(vb.Slots) && vb.Slots[j].Key == sa.Key {
			c.Count("pairing_" + op + "_" + form + "_" + kindName[sa.Kind] + "x" + kindName[vb.Slots[j].Kind])
		}
	}
}

// algebraBattery runs all op forms for operands A, B and returns the number of oracle evaluations.
func algebraBattery(c *Ctx, A, B *BM) {
	r := c.R
	for _, op := range binOps {
		if c.Failed() {
			return
		}
		want := modelOp(op, A.M, B.M)
		va, vb := A.B.VerifView(), B.B.VerifView()
		ha, hb := storageHash(A.B), storageHash(B.B)
		operandsIntact := func(form string) bool {
			ok := true
			if storageHash(A.B) != ha {
				d := checkEq(A.B, A.M)
				if d != "" {
					c.Fail(op+"/"+form+"/left-operand-changed", "left operand content changed by %s (%s): %s", op, form, d)
				} else {
					c.Fail(op+"/"+form+"/left-operand-storage-changed", "left operand raw storage changed by a call that must not modify it (%s %s); content still equal", op, form)
				}
				ok = false
			}
			if storageHash(B.B) != hb {
				d := checkEq(B.B, B.M)
				if d != "" {
					vs, _, _ := viewSet(B.B)
					dd, _ := vs.FirstDiff(B.M)
					c.Fail(op+"/"+form+"/argument-changed/"+pairClass(va, vb, dd), "argument content changed by %s (%s): %s", op, form, d)
				} else {
					c.Fail(op+"/"+form+"/argument-storage-changed", "argument raw storage changed by %s (%s); content still equal", op, form)
				}
				ok = false
			}
			c.Eval(2)
			return ok
		}
		checkRes := func(form string, res *roaring.Bitmap) bool {
			c.Eval(1)
			vs, _, _ := viewSet(res)
			if !vs.Equal(want) {
				d, _ := vs.FirstDiff(want)
				c.Fail(op+"/"+form+"/result/"+pairClass(va, vb, d), "%s (%s) result differs from the model at value %d (key %d, low %d): model has it=%v\n A=%s\n B=%s\n got=%s\n want=%s", op, form, d, d>>16, d&0xFFFF, want.Contains(d), A.M, B.M, vs, want)
				return false
			}
			if dsc := checkEq(res, want); dsc != "" {
				c.Fail(op+"/"+form+"/result-api", "%s (%s): %s", op, form, dsc)
				return false
			}
			return true
		}
		// static
		c.Step("static %s", op)
		countPairings(c, op, "static", va, vb)
		var res *roaring.Bitmap
		if c.Guard(op+"/static", func() { res = staticOp(op, A.B, B.B) }) {
			return
		}
		if !checkRes("static", res) || !operandsIntact("static") {
			return
		}
		// in-place on a plain clone
		c.Step("in-place %s on Clone(A)", op)
		countPairings(c, op, "inplace", va, vb)
		cl := A.B.Clone()
		if c.Guard(op+"/inplace", func() { inplaceOp(op, cl, B.B) }) {
			return
		}
		if !checkRes("inplace", cl) || !operandsIntact("inplace") {
			return
		}
		// in-place on a copy-on-write clone (shared, flagged containers)
		if !A.ZC {
			c.Step("in-place %s on a copy-on-write clone of A", op)
			src := A.B.Clone()
			src.SetCopyOnWrite(true)
			cw := src.Clone()
			hsrc := storageHash(src)
			countPairings(c, op, "inplacecow", cw.VerifView(), vb)
			if c.Guard(op+"/inplace-cow", func() { inplaceOp(op, cw, B.B) }) {
				return
			}
			if !checkRes("inplace-cow", cw) || !operandsIntact("inplace-cow") {
				return
			}
			if storageHash(src) != hsrc {
				c.Fail(op+"/inplace-cow/cow-source-changed", "in-place %s on a COW clone modified the bitmap it was cloned from", op)
				return
			}
			c.Eval(1)
		}
		// argument is a COW clone too
		if !B.ZC && r.Chance(0.5) {
			c.Step("in-place %s with a copy-on-write argument", op)
			srcB := B.B.Clone()
			srcB.SetCopyOnWrite(true)
			argB := srcB.Clone()
			cl2 := A.B.Clone()
			if r.Chance(0.5) {
				cl2.SetCopyOnWrite(true)
			}
			hsrc := storageHash(srcB)
			if c.Guard(op+"/inplace-cowarg", func() { inplaceOp(op, cl2, argB) }) {
				return
			}
			if !checkRes("inplace-cowarg", cl2) {
				return
			}
			if storageHash(srcB) != hsrc || storageHash(argB) != hsrc {
				c.Fail(op+"/inplace-cowarg/argument-changed", "in-place %s modified its copy-on-write argument (or the bitmap it shares containers with)", op)
				return
			}
			// now mutate the result and verify the argument stays intact (sharing visible two steps later)
			probeMutate(c, cl2, want.Clone(), op+"/inplace-cowarg")
			if storageHash(srcB) != hsrc || storageHash(argB) != hsrc {
				c.Fail(op+"/inplace-cowarg/argument-changed-later", "mutating the result of in-place %s changed its copy-on-write argument", op)
				return
			}
			c.Eval(2)
		}
	}
	// shortcuts
	c.Step("AndCardinality/OrCardinality/Intersects")
	c.Guard("shortcuts", func() {
		and := A.M.And(B.M)
		or := A.M.Or(B.M)
		va, vb := A.B.VerifView(), B.B.VerifView()
		countPairings(c, "shortcuts", "q", va, vb)
		if g := A.B.AndCardinality(B.B); g != and.Card() {
			c.Fail("AndCardinality/value", "AndCardinality=%d want %d\n A=%s\n B=%s", g, and.Card(), A.M, B.M)
		}
		if g := A.B.OrCardinality(B.B); g != or.Card() {
			c.Fail("OrCardinality/value", "OrCardinality=%d want %d\n A=%s\n B=%s", g, or.Card(), A.M, B.M)
		}
		if g := A.B.Intersects(B.B); g != !and.IsEmpty() {
			c.Fail("Intersects/value", "Intersects=%v want %v\n A=%s\n B=%s", g, !and.IsEmpty(), A.M, B.M)
		}
		if g := B.B.AndCardinality(A.B); g != and.Card() {
			c.Fail("AndCardinality/value", "AndCardinality (swapped)=%d want %d", g, and.Card())
		}
		if g := B.B.Intersects(A.B); g != !and.IsEmpty() {
			c.Fail("Intersects/value", "Intersects (swapped)=%v want %v", g, !and.IsEmpty())
		}
		// the same object on both sides
		for _, X := range []*BM{A, B} {
			if g := X.B.AndCardinality(X.B); g != X.M.Card() {
				c.Fail("AndCardinality/self", "x.AndCardinality(x)=%d want %d (x=%s)", g, X.M.Card(), X.M)
			}
			if g := X.B.OrCardinality(X.B); g != X.M.Card() {
				c.Fail("OrCardinality/self", "x.OrCardinality(x)=%d want %d (x=%s)", g, X.M.Card(), X.M)
			}
			if g := X.B.Intersects(X.B); g != !X.M.IsEmpty() {
				c.Fail("Intersects/self", "x.Intersects(x)=%v want %v", g, !X.M.IsEmpty())
			}
		}
		c.Eval(11)
	})
	// same object on both sides
	for _, op := range binOps {
		if c.Failed() {
			return
		}
		want := modelOp(op, A.M, A.M)
		c.Step("%s with the same object on both sides (static, then in-place on a clone)", op)
		var res *roaring.Bitmap
		if c.Guard(op+"/self-static", func() { res = staticOp(op, A.B, A.B) }) {
			return
		}
		if d := checkEq(res, want); d != "" {
			c.Fail(op+"/self-static/result", "%s(x,x): %s", op, d)
			return
		}
		if d := checkEq(A.B, A.M); d != "" {
			c.Fail(op+"/self-static/operand-changed", "%s(x,x) changed x: %s", op, d)
			return
		}
		cl := A.B.Clone()
		if !A.ZC && r.Chance(0.3) {
			cl.SetCopyOnWrite(true)
		}
		if c.Guard(op+"/self-inplace", func() { inplaceOp(op, cl, cl) }) {
			return
		}
		if d := checkEq(cl, want); d != "" {
			c.Fail(op+"/self-inplace/result", "x.%s(x): %s", op, d)
			return
		}
		c.Eval(3)
	}
	// directly on a zero-copy / original receiver (mutates A; done last)
	if !c.Failed() {
		op := binOps[r.Intn(4)]
		want := modelOp(op, A.M, B.M)
		c.Step("in-place %s directly on A (form %s)", op, A.Form)
		hb := storageHash(B.B)
		va, vb := A.B.VerifView(), B.B.VerifView()
		countPairings(c, op, "inplace-direct-"+zcName(A.ZC), va, vb)
		if c.Guard(op+"/inplace-direct", func() { inplaceOp(op, A.B, B.B) }) {
			return
		}
		A.M = want
		if d := checkEq(A.B, want); d != "" {
			vs, _, _ := viewSet(A.B)
			dd, _ := vs.FirstDiff(want)
			c.Fail(op+"/inplace-direct/result/"+pairClass(va, vb, dd), "in-place %s on the original receiver (form %s): %s", op, A.Form, d)
			return
		}
		if storageHash(B.B) != hb {
			c.Fail(op+"/inplace-direct/argument-changed", "in-place %s changed its argument's storage", op)
		}
		c.Eval(2)
	}
}

func zcName(z bool) string {
	if z {
		return "zerocopy"
	}
	return "owned"
}

// probeMutate applies a few mutations to b (model m) and checks it still matches.
func probeMutate(c *Ctx, b *roaring.Bitmap, m *ISet, sig string) {
	bm := &BM{B: b, M: m}
	for i := 0; i < 4 && !c.Failed(); i++ {
		op := mutateStep(c, bm, MutOpts{Light: true, NoClone: true, Sig: sig + "/probe-"})
		if d := checkEq(bm.B, bm.M); d != "" {
			c.Fail(sig+"/probe/"+op, "after mutating the result: %s", d)
		}
	}
}

func c01Pairs(c *Ctx) {
	r := c.R
	ma, mb, rel := genPairModels(r)
	fa, fb := ownedForms[r.Intn(len(ownedForms))], ownedForms[r.Intn(len(ownedForms))]
	A, ea := buildForm(r, ma, fa)
	B, eb := buildForm(r, mb, fb)
	c.Step("A form=%s set=%v", fa, descSet(ma))
	c.Step("B form=%s set=%v (relation %s)", fb, descSet(mb), rel)
	if ea != "" || eb != "" {
		c.Fail("build/"+fa+"/"+fb, "%s %s", ea, eb)
		return
	}
	if r.Chance(0.25) && !A.ZC {
		A.B.SetCopyOnWrite(true)
		c.Step("A.SetCopyOnWrite(true)")
	}
	if r.Chance(0.25) && !B.ZC {
		B.B.SetCopyOnWrite(true)
		c.Step("B.SetCopyOnWrite(true)")
	}
	c.Count("relation_" + rel)
	c.Count("formA_" + A.Form)
	if !ma.IsEmpty() && !mb.IsEmpty() {
		c.Distinct(mix(mix(ma.Hash(), mb.Hash()), hashStr(fa+fb)))
	}
	algebraBattery(c, A, B)
	c.Sample(map[string]any{"unit": "pairs", "case_seed": c.CaseSeed, "relation": rel, "formA": fa, "formB": fb, "A": descSet(ma), "B": descSet(mb)})
}

// c01Threshold steers results onto 4095/4096/4097 and 65535/65536 elements in one chunk.
// genThresholdPair returns operands A, B of one chunk (at the given key, already shifted) and an operation such that
// A op B has exactly `target` values, the target being one of the representation thresholds.
func genThresholdPair(r *Rng, key uint64) (ma, mb *ISet, op string, target int) {
	target = []int{4095, 4096, 4097, 4097, 65535, 65536, 32768, 16384, 8192, 4098 + r.Intn(14)}[r.Intn(10)]
	runsVsSingles := false
	op = binOps[r.Intn(4)]
	// choose the result set R with |R| = target, then derive A and B so that A op B = R
	var R *ISet
	if target >= 65535 {
		R = ISetOf(IV{0, 65535})
		if target == 65535 {
			R.Remove(edgeVal16(r))
		}
	} else if target >= 4090 && target <= 4111 && r.Chance(0.25) {
		// the run / bitmap size tie: a run chunk costs 2+4n bytes, a bitmap chunk 8192, so n = 2044..2058 runs is where the
		// cheapest form of a chunk with just over 4096 values changes; pairs and single values make exactly n runs
		runsVsSingles = true
		n := 2044 + r.Intn(15)
		if 2*n < target {
			n = (target + 1) / 2
		}
		pairs, singles := target-n, 2*n-target
		R = NewISet()
		pos := r.Range(0, 20)
		for i := 0; i < n; i++ {
			isPair := pairs > 0 && (singles == 0 || r.Intn(pairs+singles) < pairs)
			if isPair {
				R.AddRange(pos, pos+1)
				pairs--
				pos += 2
			} else {
				R.Add(pos)
				singles--
				pos++
			}
			pos += 1 + r.Range(0, 25)
		}
		if mx, _ := R.Max(); mx > 65535 || R.Card() != uint64(target) {
			R = ivsToSet(spreadN(r, target))
		}
	} else if target <= 4111 && r.Chance(0.35) {
		runsVsSingles = true
		// k short runs (length 2..4, the shortest that still make a run chunk run-efficient) with isolated values in
		// the gaps between them: exactly the target, in 2048 or more runs when the pieces are united
		R = NewISet()
		k := 500 + r.Intn(800)
		pos := r.Range(0, 30)
		var gaps []uint64
		for i := 0; i < k && R.Card()+4 < uint64(target); i++ {
			l := r.Range(2, 4)
			R.AddRange(pos, pos+l-1)
			gaps = append(gaps, pos+l+1) // first usable position of the gap behind this run
			pos += l + 2 + 2*r.Range(1, 5)
		}
		for i := 0; R.Card() < uint64(target) && i < 4*len(gaps)+8; i++ {
			if i < len(gaps) {
				R.Add(gaps[i])
			} else {
				pos += 2
				R.Add(pos)
			}
		}
		if mx, _ := R.Max(); mx > 65535 || R.Card() != uint64(target) {
			R = ivsToSet(spreadN(r, target))
		}
	} else if r.Chance(0.33) {
		R = ivsToSet(spreadN(r, target))
	} else if r.Chance(0.5) {
		// a few runs plus scattered single values, together exactly the target (a run-like operand meets
		// an array-like operand and their union lands on the threshold with a large run count)
		R = NewISet()
		k := uint64(r.Range(1, minU(3000, uint64(target)-1)))
		pos := r.Range(0, 2000)
		for k > 0 {
			l := minU(k, r.Range(1, 1500))
			R.AddRange(pos, pos+l-1)
			pos += l + r.Range(2, 300)
			k -= l
		}
		for R.Card() < uint64(target) {
			R.Add(r.Range(pos+2, 65535))
		}
		if mx, _ := R.Max(); mx > 65535 || R.Card() != uint64(target) {
			R = ivsToSet(spreadN(r, target))
		}
	} else {
		R = NewISet()
		// runs summing to target
		left := uint64(target)
		pos := r.Range(0, 100)
		for left > 0 {
			l := minU(left, r.Range(1, 600))
			R.AddRange(pos, pos+l-1)
			pos += l + r.Range(1, 40)
			left -= l
		}
		if mx, _ := R.Max(); mx > 65535 {
			R = ivsToSet(spreadN(r, target))
		}
	}
	noise := ivsToSet(genChunk(r, heavyArch[r.Intn(len(heavyArch))]))
	var a, b *ISet
	switch op {
	case "And":
		na := noise.AndNot(R)
		half1, half2 := splitSet(r, na)
		a, b = R.Or(half1), R.Or(half2)
	case "Or":
		a, b = splitSet(r, R)
		if runsVsSingles && r.Chance(0.7) {
			// the runs to one operand (a run chunk), the isolated values to the other (an array chunk)
			a, b = NewISet(), NewISet()
			for _, v := range R.iv {
				if v.Hi > v.Lo {
					a.iv = append(a.iv, v)
				} else {
					b.iv = append(b.iv, v)
				}
			}
			a, b = ivsToSet(a.iv), ivsToSet(b.iv)
			if r.Chance(0.3) {
				a, b = b, a
			}
		} else if r.Chance(0.5) {
			a = a.Or(b.And(noise)) // overlap
		}
	case "Xor":
		common := noise.AndNot(R)
		p, q := splitSet(r, R)
		a, b = p.Or(common), q.Or(common)
	default: // AndNot
		a = R.Or(noise)
		b = noise.AndNot(R)
	}
	sh := func(s *ISet) *ISet { return ivsToSet(shiftIVs(s.iv, key)) }
	return sh(a), sh(b), op, target
}

func c01Threshold(c *Ctx) {
	r := c.R
	key := genKeys(r, 1)[0] << 16
	ma, mb, op, target := genThresholdPair(r, key)
	fa, fb := ownedForms[r.Intn(len(ownedForms))], ownedForms[r.Intn(len(ownedForms))]
	A, ea := buildForm(r, ma, fa)
	B, eb := buildForm(r, mb, fb)
	c.Step("threshold target=%d op=%s A form=%s %v", target, op, fa, descSet(ma))
	c.Step("B form=%s %v", fb, descSet(mb))
	if ea != "" || eb != "" {
		c.Fail("build/"+fa+"/"+fb, "%s %s", ea, eb)
		return
	}
	if got := modelOp(op, ma, mb).Card(); got != uint64(target) {
		c.Note(fmt.Sprintf("threshold generator produced card %d for target %d", got, target))
	} else {
		c.Count(fmt.Sprintf("threshold_result_card_%d_%s", target, op))
	}
	c.Distinct(mix(mix(ma.Hash(), mb.Hash()), hashStr(fa+fb+op)))
	algebraBattery(c, A, B)
}

func splitSet(r *Rng, s *ISet) (*ISet, *ISet) {
	a, b := NewISet(), NewISet()
	if r.Chance(0.35) {
		// runs to one side, isolated values to the other
		for _, v := range s.iv {
			if v.Hi-v.Lo >= 3 {
				a.iv = append(a.iv, v)
			} else {
				b.iv = append(b.iv, v)
			}
		}
		if r.Chance(0.5) {
			a, b = b, a
		}
		return ivsToSet(a.iv), ivsToSet(b.iv)
	}
	for _, v := range s.iv {
		if v.Hi-v.Lo > 8 && r.Chance(0.5) {
			mid := r.Range(v.Lo, v.Hi-1)
			a.iv = append(a.iv, IV{v.Lo, mid})
			b.iv = append(b.iv, IV{mid + 1, v.Hi})
			continue
		}
		if r.Chance(0.5) {
			a.iv = append(a.iv, v)
		} else {
			b.iv = append(b.iv, v)
		}
	}
	return ivsToSet(a.iv), ivsToSet(b.iv)
}

// all ordered pairs of subsets of the boundary domain
var c01Dom = []uint64{0, 63, 64, 4095, 4096, 65535, 65536, max32}

func subsetOf(dom []uint64, mask int) *ISet {
	s := NewISet()
	for i, v := range dom {
		if mask&(1<<uint(i)) != 0 {
			s.Add(v)
		}
	}
	return s
}

func c01Exh(c *Ctx, index int) {
	ma, mb := subsetOf(c01Dom, index>>8), subsetOf(c01Dom, index&255)
	forms := []string{"add", "opt", "frombuffer"}
	fa, fb := forms[index%3], forms[(index/3)%3]
	A, ea := buildForm(c.R, ma, fa)
	B, eb := buildForm(c.R, mb, fb)
	c.Step("A=%v (%s) B=%v (%s)", ma.Full(), fa, mb.Full(), fb)
	if ea != "" || eb != "" {
		c.Fail("build/"+fa+"/"+fb, "%s %s", ea, eb)
		return
	}
	for _, op := range binOps {
		want := modelOp(op, ma, mb)
		var res *roaring.Bitmap
		if c.Guard(op+"/static", func() { res = staticOp(op, A.B, B.B) }) {
			return
		}
		if d := checkEq(res, want); d != "" {
			c.Fail(op+"/static/result/exh", "%s: %s", op, d)
		}
		cl := A.B.Clone()
		if c.Guard(op+"/inplace", func() { inplaceOp(op, cl, B.B) }) {
			return
		}
		if d := checkEq(cl, want); d != "" {
			c.Fail(op+"/inplace/result/exh", "%s: %s", op, d)
		}
		c.Eval(2)
	}
	and := ma.And(mb)
	if A.B.AndCardinality(B.B) != and.Card() || A.B.OrCardinality(B.B) != ma.Or(mb).Card() || A.B.Intersects(B.B) != !and.IsEmpty() {
		c.Fail("shortcuts/exh", "AndCardinality/OrCardinality/Intersects disagree with the model")
	}
	if d := checkEq(A.B, ma); d != "" {
		c.Fail("operand-changed/exh", "%s", d)
	}
	if d := checkEq(B.B, mb); d != "" {
		c.Fail("operand-changed/exh", "%s", d)
	}
	c.Eval(5)
	if !ma.IsEmpty() && !mb.IsEmpty() {
		c.Distinct(uint64(index))
	}
}

// popcountKernels: AVX2-dispatched vs portable popcount for every slice length 0..1100.
func popcountKernels(c *Ctx, n int) {
	r := NewRng(uint64(n) + 99)
	for _, mode := range []int{0, 1, 2, 3} {
		s := make([]uint64, n)
		m := make([]uint64, n)
		for i := range s {
			switch mode {
			case 0:
			case 1:
				s[i], m[i] = maxU64, maxU64
			case 2:
				s[i], m[i] = r.Uint64(), r.Uint64()
			case 3:
				if i == n-1 || i == 0 {
					s[i] = 1 << uint(r.Intn(64))
					m[i] = 1 << uint(r.Intn(64))
				}
			}
		}
		d, p := roaring.VerifPopcounts(s, m)
		c.Eval(5)
		if d != p {
			c.Fail("popcount/dispatch-vs-portable", "popcount kernels disagree for len=%d mode=%d: dispatched=%v portable=%v", n, mode, d, p)
		}
	}
	if n > 0 {
		c.Distinct(uint64(n) | 1<<40)
	}
}
