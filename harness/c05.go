package main

import (
	"bytes"
	"encoding/base64"
	"errors"
	"fmt"
	"io"

	"github.com/RoaringBitmap/roaring/v2"
)

func init() {
	register(&Property{
		ID: "C05", Level: "fault_enumeration", Builds: []string{"plain", "checkptr", "race"},
		Rule:        "cases = bitmaps reached by generated histories (chunk kinds depend on the history; 0,1,3,4,5,~300 and 65536 chunks; with/without run chunks) serialized by WriteTo/ToBytes/MarshalBinary/ToBase64 and decoded through ReadFrom (bytes.Reader with a sentinel tail; a reader delivering 1..7 bytes per Read; a reader returning (n>0, io.EOF)), FromBuffer, FromUnsafeBytes, UnmarshalBinary, FromBase64, each into a fresh receiver and into receivers that held a larger / smaller / copy-on-write / zero-copy bitmap; byte counts compared (len(ToBytes)=GetSerializedSizeInBytes=n(WriteTo)=n(reader)); the decoded bitmap is then mutated 20 steps against the model. FAULT ENUMERATION: a contract-abiding failing io.Writer at EVERY byte offset for streams <= 4 KiB (header-field boundaries +-1 plus 64 sampled offsets above) must make WriteTo return an error. The same unit also runs in a checkptr build. Non-trivial: non-empty bitmap; distinct = hash(set, kinds). Race build: independent bitmaps on independent goroutines (4-32 goroutines, GOMAXPROCS 1-16; every writer through a writer that yields inside Write, every decoder through a reader that yields inside Read, private mutations in between) must neither race inside the library nor influence each other (each goroutine checks its own model, an independent decoder and byte equality of all writers). Small-scope exhaustive units: every chunk count (writers, accounting, all decoders, failing writers; returned slices overwritten by the caller) and receivers grown to 1..400 (thorough 1..1500) chunks by three histories x every nearby stream chunk count. Second generation: the decoded, mutated bitmap is serialized again and reloaded into a fresh bitmap and over itself.",
		Assumptions: []string{"interval-set model validated by selfcheck", "zero-copy inputs are kept reachable and unmodified by the harness for the lifetime of the bitmap (documented caller obligation)"},
		Units: []Unit{
			{Name: "roundtrip@plain,checkptr", Quick: 1600, Thorough: 60000, Run: c05RoundTrip},
			{Name: "huge-65536-chunks@plain", Quick: 1, Thorough: 4, Run: c05Huge, Serial: true},
			{Name: "every-chunk-count@plain", ExhaustiveN: func(t string) int { return len(chunkCounts(t)) }, RunIndexed: c05EveryCount},
			{Name: "receiver-growth-x-stream-size@plain", ExhaustiveN: growthCases, RunIndexed: func(c *Ctx, i int) { receiverGrowthCase(c, i, false) }},
			{Name: "independent-bitmaps-concurrently@race", Quick: 6, Thorough: 200, Run: func(c *Ctx) { concIndependent(c, "portable32") }},
		},
	})
}

var curVariant = "plain"

// genSerBM produces a bitmap whose chunk kinds depend on a short history.
func genSerBM(c *Ctx) *BM {
	r := c.R
	o := GenOpts{MaxChunks: 6, HeavyP: 0.35}
	if r.Chance(0.15) {
		// 1..150 chunks with a couple of values each (chunk-count edges of reused receivers, header sizes);
		// sometimes 1000..1500 chunks or an exact multiple of 1024 (offset header = whole 4 KiB blocks)
		n := 1 + r.Intn(150)
		switch r.Intn(12) {
		case 0:
			n = 1000 + r.Intn(500)
		case 1:
			n = 1024 * (1 + r.Intn(2))
		}
		m := NewISet()
		base := r.Range(0, 65535-uint64(n))
		for k := uint64(0); k < uint64(n); k++ {
			lo := (base+k)<<16 | r.Range(0, 65000)
			m.AddRange(lo, lo+r.Range(0, 5))
		}
		f := formsNoZC[r.Intn(len(formsNoZC))]
		if bm, es := buildForm(r, m, f); es == "" {
			c.Step("bitmap with %d small chunks form=%s", n, f)
			return bm
		}
	}
	switch r.Intn(12) {
	case 0:
		o.Keys = []uint64{}
	case 1:
		o = GenOpts{MaxChunks: 300, HeavyP: 0.01}
	case 2, 3:
		// exactly 3, 4 or 5 chunks (offset-header threshold)
		n := 3 + r.Intn(3)
		m := NewISet()
		for _, k := range genKeys(r, n) {
			a := lightArch[r.Intn(len(lightArch))]
			if r.Chance(0.3) {
				a = heavyArch[r.Intn(len(heavyArch))]
			}
			for _, v := range genChunk(r, a) {
				m.AddRange(k<<16|v.Lo, k<<16|v.Hi)
			}
		}
		f := formsNoZC[r.Intn(len(formsNoZC))]
		bm, es := buildForm(r, m, f)
		if es == "" {
			c.Step("bitmap with %d chunks form=%s %v", n, f, descSet(m))
			return bm
		}
	}
	bm := genBM(c, o, false)
	c.Step("start form=%s set=%v", bm.Form, descSet(bm.M))
	for i := r.Intn(8); i > 0 && !c.Failed(); i-- {
		mutateStep(c, bm, MutOpts{Light: true, NoClone: true, COWToggle: true})
	}
	return bm
}

type chunkedReader struct {
	data        []byte
	r           *Rng
	eofWithData bool
}

func (cr *chunkedReader) Read(p []byte) (int, error) {
	if len(cr.data) == 0 {
		return 0, io.EOF
	}
	n := 1 + cr.r.Intn(7)
	if n > len(p) {
		n = len(p)
	}
	if n > len(cr.data) {
		n = len(cr.data)
	}
	copy(p, cr.data[:n])
	cr.data = cr.data[n:]
	if len(cr.data) == 0 && cr.eofWithData {
		return n, io.EOF
	}
	return n, nil
}

type failWriter struct {
	limit int
	n     int
}

var errInjected = errors.New("injected write failure")

func (fw *failWriter) Write(p []byte) (int, error) {
	if fw.n+len(p) > fw.limit {
		k := fw.limit - fw.n
		if k < 0 {
			k = 0
		}
		fw.n += k
		return k, errInjected
	}
	fw.n += len(p)
	return len(p), nil
}

// previous contents for a reused receiver
func reusedReceiver(c *Ctx) (*roaring.Bitmap, string) {
	r := c.R
	if r.Chance(0.15) {
		// a receiver first sized exactly by an earlier decode and then grown by appends (yet another
		// combination of capacities of the three parallel tables), optionally much larger
		a := 1 + r.Intn(20)
		if r.Chance(0.1) {
			a = 1000 + r.Intn(500)
		}
		src := roaring.New()
		for k := 0; k < a; k++ {
			src.Add(uint32(k)<<16 | 7)
		}
		b := roaring.New()
		if buf, err := src.ToBytes(); err == nil {
			b.ReadFrom(bytes.NewReader(buf))
		}
		for k := 0; k < r.Intn(25); k++ {
			b.Add(uint32(a+k)<<16 | uint32(r.Intn(65536)))
		}
		how := "previously-decoded-then-appended"
		if r.Chance(0.3) {
			b.Clear()
			how += "-then-cleared"
		}
		return b, how
	}
	if r.Chance(0.3) {
		// a receiver whose tables grew by appends to N chunks (capacities of the three parallel slices
		// round to different allocation classes), optionally cleared
		n := 1 + r.Intn(150)
		if r.Chance(0.1) {
			n = 1000 + r.Intn(500)
		}
		b := roaring.New()
		for k := 0; k < n; k++ {
			b.Add(uint32(k)<<16 | uint32(r.Intn(65536)))
		}
		how := "previously-grown-by-appends"
		if r.Chance(0.4) {
			b.Clear()
			how += "-then-cleared"
		}
		return b, how
	}
	switch r.Intn(5) {
	case 0:
		return roaring.New(), "fresh"
	case 1:
		m, _ := genSet(r, GenOpts{MaxChunks: 12, HeavyP: 0.2})
		b, es := buildForm(r, m, "opt")
		if es == "" {
			return b.B, "previously-larger"
		}
	case 2:
		b := roaring.BitmapOf(1, 2, 3)
		return b, "previously-smaller"
	case 3:
		m, _ := genSet(r, GenOpts{MaxChunks: 4, HeavyP: 0.3})
		b, es := buildForm(r, m, "cowclone")
		if es == "" {
			return b.B, "previously-cow"
		}
	case 4:
		if curVariant != "checkptr" {
			m, _ := genSet(r, GenOpts{MaxChunks: 4, HeavyP: 0.3})
			b, es := buildForm(r, m, "frombuffer")
			if es == "" {
				return b.B, "previously-zerocopy"
			}
		}
	}
	return roaring.New(), "fresh"
}

func c05RoundTrip(c *Ctx) {
	r := c.R
	bm := genSerBM(c)
	if c.Failed() {
		return
	}
	b, m := bm.B, bm.M
	if !m.IsEmpty() {
		c.Distinct(mix(m.Hash(), kindVectorHash(b)))
	}
	countKinds(c, "chunk_kind_", b)
	// ---- writers
	var wire []byte
	if c.Guard("write", func() {
		var err error
		wire, err = b.ToBytes()
		if err != nil {
			c.Fail("ToBytes/error", "ToBytes failed on a library-made bitmap: %v", err)
			return
		}
		size := b.GetSerializedSizeInBytes()
		if uint64(len(wire)) != size {
			c.Fail("size/ToBytes-vs-GetSerializedSizeInBytes", "len(ToBytes)=%d GetSerializedSizeInBytes=%d", len(wire), size)
		}
		var buf bytes.Buffer
		n, err := b.WriteTo(&buf)
		if err != nil || n != int64(buf.Len()) || !bytes.Equal(buf.Bytes(), wire) {
			c.Fail("WriteTo/bytes-or-count", "WriteTo returned (%d,%v) and wrote %d bytes; ToBytes has %d; equal=%v", n, err, buf.Len(), len(wire), bytes.Equal(buf.Bytes(), wire))
		}
		mb, err := b.MarshalBinary()
		if err != nil || !bytes.Equal(mb, wire) {
			c.Fail("MarshalBinary/bytes", "MarshalBinary differs from ToBytes (err=%v)", err)
		}
		s64, err := b.ToBase64()
		if err != nil {
			c.Fail("ToBase64/error", "%v", err)
		} else if dec, derr := base64.StdEncoding.DecodeString(s64); derr != nil || !bytes.Equal(dec, wire) {
			c.Fail("ToBase64/bytes", "ToBase64 does not decode to the ToBytes stream (err=%v)", derr)
		}
		c.Eval(5)
	}) || c.Failed() {
		return
	}
	c.Count(fmt.Sprintf("stream_cookie_%d", uint32(wire[0])|uint32(wire[1])<<8))
	// ---- fault enumeration: failing writer
	c.Step("failing writer at enumerated offsets of a %d byte stream", len(wire))
	var offsets []int
	if len(wire) <= 4096 {
		for k := 0; k < len(wire); k++ {
			offsets = append(offsets, k)
		}
		c.Count("writer_failure_streams_enumerated_completely")
	} else {
		_, _, info, _ := specDecode(wire)
		cand := []int{0, 1, 3, 4, 5, 7, 8, 9, len(wire) - 1, len(wire) - 2}
		if info != nil {
			for _, ch := range info.Chunks {
				cand = append(cand, ch.Off-1, ch.Off, ch.Off+1, ch.Off+2)
			}
		}
		for i := 0; i < 64; i++ {
			cand = append(cand, r.Intn(len(wire)))
		}
		for _, k := range cand {
			if k >= 0 && k < len(wire) {
				offsets = append(offsets, k)
			}
		}
	}
	c.Guard("WriteTo/failing-writer", func() {
		for _, k := range offsets {
			fw := &failWriter{limit: k}
			n, err := b.WriteTo(fw)
			c.Eval(1)
			if err == nil {
				c.Fail("WriteTo/failing-writer/nil-error", "WriteTo returned (%d,nil) although the writer failed at offset %d of %d", n, k, len(wire))
				return
			}
		}
		c.CountN("writer_failure_offsets", int64(len(offsets)))
	})
	if c.Failed() {
		return
	}
	// ---- readers
	type entry struct {
		name string
		zc   bool
		run  func(dst *roaring.Bitmap) (int64, error, []any)
	}
	tail := []byte{0xA5, 0x5A, 0xFF, 0x00, 0x3B, 0x30, 0, 0, 1, 2, 3}
	entries := []entry{
		{"ReadFrom/bytes.Reader+tail", false, func(dst *roaring.Bitmap) (int64, error, []any) {
			rd := bytes.NewReader(append(append([]byte(nil), wire...), tail...))
			n, err := dst.ReadFrom(rd)
			if err == nil && rd.Len() != len(tail) {
				c.Fail("ReadFrom/consumed-beyond-stream", "ReadFrom left %d bytes unread, the sentinel tail has %d (stream %d bytes)", rd.Len(), len(tail), len(wire))
			}
			return n, err, nil
		}},
		{"ReadFrom/chunked-1-7", false, func(dst *roaring.Bitmap) (int64, error, []any) {
			n, err := dst.ReadFrom(&chunkedReader{data: append([]byte(nil), wire...), r: r})
			return n, err, nil
		}},
		{"ReadFrom/n>0+EOF", false, func(dst *roaring.Bitmap) (int64, error, []any) {
			n, err := dst.ReadFrom(&chunkedReader{data: append([]byte(nil), wire...), r: r, eofWithData: true})
			return n, err, nil
		}},
		{"ReadFrom/source-zoo", false, func(dst *roaring.Bitmap) (int64, error, []any) {
			src := sourceZoo(r, wire)
			defer src.done()
			c.Step("source: %s", src.name)
			c.Count("source_" + src.name)
			n, err := dst.ReadFrom(src.rd)
			if err != nil {
				err = fmt.Errorf("%w (source: %s)", err, src.name)
			}
			return n, err, nil
		}},
		{"FromBuffer", true, func(dst *roaring.Bitmap) (int64, error, []any) {
			buf := append(append([]byte(nil), wire...), tail...)
			n, err := dst.FromBuffer(buf)
			return n, err, []any{buf}
		}},
		{"FromUnsafeBytes", true, func(dst *roaring.Bitmap) (int64, error, []any) {
			buf := append([]byte(nil), wire...)
			n, err := dst.FromUnsafeBytes(buf)
			return n, err, []any{buf}
		}},
		{"UnmarshalBinary", false, func(dst *roaring.Bitmap) (int64, error, []any) {
			err := dst.UnmarshalBinary(append([]byte(nil), wire...))
			return int64(len(wire)), err, nil
		}},
		{"FromBase64", false, func(dst *roaring.Bitmap) (int64, error, []any) {
			n, err := dst.FromBase64(base64.StdEncoding.EncodeToString(wire))
			return n, err, nil
		}},
	}
	for _, e := range entries {
		if c.Failed() {
			return
		}
		dst, how := reusedReceiver(c)
		c.Step("decode via %s into a %s receiver", e.name, how)
		c.Count("decode_" + e.name)
		c.Count("receiver_" + how)
		var n int64
		var err error
		var keep []any
		if c.Guard(e.name, func() { n, err, keep = e.run(dst) }) {
			return
		}
		if err != nil {
			c.Fail(e.name+"/error", "%s failed on the library's own bytes: %v", e.name, err)
			return
		}
		if n != int64(len(wire)) {
			c.Fail(e.name+"/byte-count", "%s reported %d bytes, the stream has %d", e.name, n, len(wire))
			return
		}
		if d := checkEq(dst, m); d != "" {
			c.Fail(e.name+"/content/"+how, "%s into a %s receiver: %s", e.name, how, d)
			return
		}
		if !dst.Equals(b) || !b.Equals(dst) {
			c.Fail(e.name+"/Equals", "decoded bitmap is not Equal to the original")
			return
		}
		c.Eval(3)
		// the decoded bitmap must support all further operations
		dm := &BM{B: dst, M: m.Clone(), ZC: e.zc, Keep: keep}
		for i := 0; i < 20 && !c.Failed(); i++ {
			var op string
			if r.Chance(0.2) {
				op = algebraStep(c, dm, e.name+"/then-")
			} else {
				op = mutateStep(c, dm, MutOpts{Light: true, NoClone: true, COWToggle: !e.zc, Sig: e.name + "/then-"})
			}
			if c.Failed() {
				return
			}
			if d := checkEq(dm.B, dm.M); d != "" {
				c.Fail(e.name+"/then-"+op+"/content", "after decoding via %s and %s: %s", e.name, op, d)
				return
			}
			c.Eval(1)
		}
		// second generation: the mutated bitmap is written again and loaded back - into a fresh bitmap and into the
		// very bitmap it was written from (reload over live contents)
		if !c.Failed() {
			var wire2 []byte
			var err2 error
			c.Step("second generation: serialize the mutated bitmap, reload it into a fresh bitmap and over itself")
			if c.Guard(e.name+"/second-generation", func() { wire2, err2 = dm.B.ToBytes() }) {
				return
			}
			if err2 != nil || uint64(len(wire2)) != dm.B.GetSerializedSizeInBytes() {
				c.Fail(e.name+"/second-generation/ToBytes", "after decoding via %s and mutating: ToBytes err=%v len=%d GetSerializedSizeInBytes=%d", e.name, err2, len(wire2), dm.B.GetSerializedSizeInBytes())
				return
			}
			fresh := roaring.New()
			var n2 int64
			if c.Guard(e.name+"/second-generation", func() { n2, err2 = fresh.ReadFrom(bytes.NewReader(wire2)) }) {
				return
			}
			if err2 != nil || n2 != int64(len(wire2)) {
				c.Fail(e.name+"/second-generation/ReadFrom", "second generation ReadFrom = (%d,%v) for %d bytes", n2, err2, len(wire2))
				return
			}
			if d := checkEq(fresh, dm.M); d != "" {
				c.Fail(e.name+"/second-generation/content", "second generation (fresh receiver): %s", d)
				return
			}
			if c.Guard(e.name+"/second-generation/reload-over-itself", func() {
				if r.Chance(0.5) {
					n2, err2 = dm.B.ReadFrom(bytes.NewReader(wire2))
				} else {
					err2 = dm.B.UnmarshalBinary(append([]byte(nil), wire2...))
					n2 = int64(len(wire2))
				}
			}) {
				return
			}
			if err2 != nil || n2 != int64(len(wire2)) {
				c.Fail(e.name+"/second-generation/reload-over-itself", "reloading a bitmap from its own bytes = (%d,%v) for %d bytes", n2, err2, len(wire2))
				return
			}
			if d := checkEq(dm.B, dm.M); d != "" {
				c.Fail(e.name+"/second-generation/reload-over-itself/content", "after reloading the bitmap from its own bytes: %s", d)
				return
			}
			op := mutateStep(c, dm, MutOpts{Light: true, NoClone: true, Sig: e.name + "/second-generation/then-"})
			if d := checkEq(dm.B, dm.M); d != "" && !c.Failed() {
				c.Fail(e.name+"/second-generation/then-"+op+"/content", "after the reload and %s: %s", op, d)
				return
			}
			c.Eval(4)
		}
		// zero-copy buffers must be untouched by those mutations
		for _, k := range keep {
			if buf, ok := k.([]byte); ok && !bytes.Equal(buf[:len(wire)], wire) {
				c.Fail(e.name+"/caller-buffer-modified", "mutating a bitmap decoded via %s modified the caller's buffer", e.name)
				return
			}
		}
	}
	c.Sample(map[string]any{"unit": "roundtrip", "case_seed": c.CaseSeed, "stream_bytes": len(wire), "set": descSet(m), "writer_failure_offsets": len(offsets)})
}

// c05Huge: a bitmap with all 65536 chunks.
func c05Huge(c *Ctx) {
	r := c.R
	b := roaring.New()
	m := NewISet()
	c.Step("bitmap with 65536 chunks")
	mode := r.Intn(3)
	for k := uint64(0); k < 65536; k++ {
		switch {
		case mode == 0 || k%3 == 0:
			v := k<<16 | r.Range(0, 65535)
			b.Add(uint32(v))
			m.Add(v)
		case k%3 == 1:
			lo := k<<16 | r.Range(0, 60000)
			b.AddRange(lo, lo+100)
			m.AddRange(lo, lo+99)
		default:
			lo := k << 16
			b.AddRange(lo, lo+65536)
			m.AddRange(lo, lo+65535)
		}
	}
	if mode == 2 {
		b.RunOptimize()
	}
	c.Distinct(m.Hash())
	c.Guard("huge", func() {
		wire, err := b.ToBytes()
		if err != nil {
			c.Fail("huge/ToBytes", "%v", err)
			return
		}
		if uint64(len(wire)) != b.GetSerializedSizeInBytes() {
			c.Fail("huge/size", "len(ToBytes)=%d GetSerializedSizeInBytes=%d", len(wire), b.GetSerializedSizeInBytes())
		}
		for _, name := range []string{"ReadFrom", "FromBuffer", "FromUnsafeBytes"} {
			dst := roaring.New()
			var n int64
			switch name {
			case "ReadFrom":
				n, err = dst.ReadFrom(bytes.NewReader(wire))
			case "FromBuffer":
				n, err = dst.FromBuffer(wire)
			default:
				n, err = dst.FromUnsafeBytes(wire)
			}
			if err != nil || n != int64(len(wire)) {
				c.Fail("huge/"+name, "%s = (%d,%v) for a %d byte stream", name, n, err, len(wire))
				return
			}
			if d := checkEq(dst, m); d != "" {
				c.Fail("huge/"+name+"/content", "%s", d)
				return
			}
			c.Eval(2)
		}
		ds, used, info, derr := specDecode(wire)
		if derr != nil || used != len(wire) || !ds.Equal(m) || len(info.Strict) > 0 {
			c.Fail("huge/spec-decoder", "independent decoder: err=%v used=%d/%d equal=%v strict=%v", derr, used, len(wire), ds != nil && ds.Equal(m), info.Strict)
		}
		_ = wire[len(wire)-1]
	})
}
