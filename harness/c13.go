package main

import (
	"bytes"

	"github.com/RoaringBitmap/roaring/v2"
)

func init() {
	register(&Property{
		ID: "C13", Level: "exploration", Builds: []string{"plain", "race"},
		Rule:        "cases = the C05 bitmap population (history-dependent chunk kinds and orders, empty bitmap, ~300 chunks; one 65536-chunk bitmap) x destination buffer sizes {0, size-1, size, size+1, size+random}: Freeze, FreezeTo and WriteFrozenTo must produce identical bytes of length GetFrozenSizeInBytes = returned count; FreezeTo into a too-small buffer must return an error and leave the buffer untouched; an INDEPENDENT parser of the CRoaring frozen layout (arenas in bitmap, run, array order; keys; counts = cardinality-1 for array/bitmap and number of runs for run; type codes 1/2/3; 15-bit cookie 13766 + chunk count) must decode the model's set and see the stored kinds; FrozenView and MustFrozenView of the bytes, placed in PROT_READ guard memory (start- and end-flush), must be Equal to the original, validate, answer queries and survive 25 mutation steps against the model without writing to the buffer (memory fault / checksum). Non-trivial: non-empty bitmap; distinct = hash(set, kinds). Race build: independent bitmaps on independent goroutines (4-32 goroutines, GOMAXPROCS 1-16; every writer through a writer that yields inside Write, every decoder through a reader that yields inside Read, private mutations in between) must neither race inside the library nor influence each other (each goroutine checks its own model, an independent decoder and byte equality of all writers). Exhaustive sub-space: every chunk count through the three writers, the independent parser and both views; returned slices are overwritten by the caller and Freeze repeated; FreezeTo destinations at odd offsets of larger buffers; second generation of mutated views.",
		Assumptions: []string{"interval-set model validated by selfcheck", "the frozen parser is this author's reading of the layout comment in CRoaring; the golden .frozen files anchor it (C06 golden unit)"},
		Units: []Unit{
			{Name: "frozen", Quick: 4000, Thorough: 120000, Run: c13Frozen},
			{Name: "huge-65536-chunks", Quick: 1, Thorough: 3, Run: c13Huge, Serial: true},
			{Name: "every-chunk-count", ExhaustiveN: func(t string) int { return len(chunkCounts(t)) }, RunIndexed: c13EveryCount},
			{Name: "independent-bitmaps-concurrently@race", Quick: 6, Thorough: 200, Run: func(c *Ctx) { concIndependent(c, "frozen32") }},
		},
	})
}

func c13Check(c *Ctx, b *roaring.Bitmap, m *ISet, mutate bool) {
	r := c.R
	var fz []byte
	size := b.GetFrozenSizeInBytes()
	if c.Guard("Freeze", func() {
		var err error
		fz, err = b.Freeze()
		if err != nil {
			c.Fail("Freeze/error", "Freeze failed on a library-made bitmap: %v", err)
			return
		}
		if uint64(len(fz)) != size {
			c.Fail("Freeze/length", "len(Freeze)=%d GetFrozenSizeInBytes=%d", len(fz), size)
			return
		}
		var wb bytes.Buffer
		n, err := b.WriteFrozenTo(&wb)
		if err != nil || n != wb.Len() || !bytes.Equal(wb.Bytes(), fz) {
			c.Fail("WriteFrozenTo/bytes-or-count", "WriteFrozenTo returned (%d,%v), wrote %d bytes, equal to Freeze=%v", n, err, wb.Len(), bytes.Equal(wb.Bytes(), fz))
			return
		}
		for _, dsz := range []int{0, int(size) - 1, int(size), int(size) + 1, int(size) + 1 + r.Intn(100)} {
			if dsz < 0 {
				continue
			}
			// "any sufficiently large buffer": the destination may start at any address (a sub-slice of a larger
			// buffer at an odd offset) and may have spare capacity behind it that is not the writer's to use
			off := []int{0, 0, 1, 2, 3, 4, 7}[r.Intn(7)]
			big := make([]byte, off+dsz+r.Intn(40))
			for i := range big {
				big[i] = 0xCD
			}
			dst := big[off : off+dsz]
			n, err := b.FreezeTo(dst)
			for i := range big {
				if (i < off || i >= off+dsz) && big[i] != 0xCD {
					c.Fail("FreezeTo/wrote-outside-destination", "FreezeTo into big[%d:%d] modified big[%d]", off, off+dsz, i)
					return
				}
			}
			if dsz < int(size) {
				if err == nil {
					c.Fail("FreezeTo/too-small-no-error", "FreezeTo into %d bytes (need %d) returned (%d,nil)", dsz, size, n)
					return
				}
				for i := range dst {
					if dst[i] != 0xCD {
						c.Fail("FreezeTo/too-small-wrote", "FreezeTo into a too-small buffer modified it at offset %d", i)
						return
					}
				}
				c.Count("freezeto_too_small")
				continue
			}
			if err != nil || n != int(size) || !bytes.Equal(dst[:n], fz) {
				c.Fail("FreezeTo/bytes-or-count", "FreezeTo into %d bytes returned (%d,%v); equal to Freeze=%v", dsz, n, err, n <= len(dst) && bytes.Equal(dst[:minI(n, len(dst))], fz))
				return
			}
			for i := n; i < len(dst); i++ {
				if dst[i] != 0xCD {
					c.Fail("FreezeTo/wrote-beyond-size", "FreezeTo wrote beyond the serialized size at offset %d", i)
					return
				}
			}
			c.Count("freezeto_large_enough")
		}
		c.Eval(6)
	}) || c.Failed() {
		return
	}
	// independent parser
	fs, fi, ferr := frozenDecode(fz)
	c.Eval(1)
	if ferr != nil {
		c.Fail("layout/independent-parser-rejects", "the independent frozen parser rejects the bytes: %v", ferr)
		return
	}
	if !fs.Equal(m) {
		d, _ := fs.FirstDiff(m)
		c.Fail("layout/decoded-set-differs", "the independent frozen parser reads a different set (first diff %d): %s vs %s", d, fs, m)
		return
	}
	v := b.VerifView()
	for i, s := range v.Slots {
		code := map[roaring.VerifKind]byte{roaring.VerifBitmap: 1, roaring.VerifArray: 2, roaring.VerifRun: 3}[s.Kind]
		if fi.Types[i] != code || fi.Keys[i] != s.Key {
			c.Fail("layout/type-or-key", "chunk %d: stored %s key %d, frozen type code %d key %d", i, kindName[s.Kind], s.Key, fi.Types[i], fi.Keys[i])
			return
		}
		want := s.Card - 1
		if s.Kind == roaring.VerifRun {
			want = s.NRuns
		}
		if int(fi.Counts[i]) != want {
			c.Fail("layout/count-field", "chunk %d (%s): count field %d, want %d", i, kindName[s.Kind], fi.Counts[i], want)
			return
		}
	}
	// views over guard memory
	for _, endFlush := range []bool{false, true} {
		if endFlush && len(fz)%8 != 0 {
			continue
		}
		reg, err := NewGuard(fz, endFlush)
		if err != nil {
			c.Note("mmap failed: " + err.Error())
			return
		}
		func() {
			defer reg.Free()
			fv := roaring.New()
			if c.R.Chance(0.5) {
				// FrozenView is a method of an existing bitmap: the receiver may have been used before
				var how string
				fv, how = reusedReceiver(c)
				c.Step("receiver %s", how)
				c.Count("receiver_" + how)
			}
			c.Step("FrozenView over read-only guard memory (end-flush=%v)", endFlush)
			var verr error
			if c.Guard("FrozenView", func() {
				if r.Chance(0.5) {
					verr = fv.FrozenView(reg.Payload)
				} else {
					verr = fv.MustFrozenView(reg.Payload)
				}
			}) {
				return
			}
			if verr != nil {
				c.Fail("FrozenView/error", "FrozenView/MustFrozenView failed on the library's own bytes: %v", verr)
				return
			}
			if d := checkEq(fv, m); d != "" {
				c.Fail("FrozenView/content", "%s", d)
				return
			}
			if !fv.Equals(b) || !b.Equals(fv) {
				c.Fail("FrozenView/Equals", "the frozen view is not Equal to the original")
				return
			}
			if err := fv.Validate(); err != nil {
				c.Fail("FrozenView/validate", "the frozen view fails Validate: %v", err)
				return
			}
			c.Eval(3)
			vm := &BM{B: fv, M: m.Clone(), ZC: true}
			queryBattery(c, vm, 6)
			if !mutate {
				return
			}
			for i := 0; i < 25 && !c.Failed(); i++ {
				var op string
				if r.Chance(0.2) {
					op = algebraStep(c, vm, "FrozenView/then-")
				} else {
					op = mutateStep(c, vm, MutOpts{Light: true, NoClone: true, Sig: "FrozenView/then-"})
				}
				if c.Failed() {
					return
				}
				if d := checkEq(vm.B, vm.M); d != "" {
					c.Fail("FrozenView/then-"+op+"/content", "%s", d)
					return
				}
				c.Eval(1)
			}
			if !reg.Intact() {
				c.Fail("FrozenView/caller-buffer-modified", "the frozen buffer changed while the view was mutated")
			}
			if c.Failed() {
				return
			}
			// second generation: the mutated view is frozen again; the three writers, the independent parser and a view
			// of the new bytes (taken with a fresh bitmap and with the mutated view itself as receiver) must agree
			c.Step("second generation: freeze the mutated view and view the new bytes")
			c.Guard("FrozenView/second-generation", func() {
				fz2, err := vm.B.Freeze()
				if err != nil || uint64(len(fz2)) != vm.B.GetFrozenSizeInBytes() {
					c.Fail("FrozenView/second-generation/Freeze", "Freeze of the mutated view: err=%v len=%d GetFrozenSizeInBytes=%d", err, len(fz2), vm.B.GetFrozenSizeInBytes())
					return
				}
				var wb bytes.Buffer
				if n, err := vm.B.WriteFrozenTo(&wb); err != nil || n != wb.Len() || !bytes.Equal(wb.Bytes(), fz2) {
					c.Fail("FrozenView/second-generation/WriteFrozenTo", "WriteFrozenTo of the mutated view differs from Freeze (n=%d err=%v)", n, err)
					return
				}
				if fs2, _, ferr := frozenDecode(fz2); ferr != nil || !fs2.Equal(vm.M) {
					c.Fail("FrozenView/second-generation/independent-parser", "independent parser on the re-frozen bytes: err=%v equal=%v", ferr, fs2 != nil && fs2.Equal(vm.M))
					return
				}
				for _, self := range []bool{false, true} {
					dst := roaring.New()
					if self {
						dst = vm.B
					}
					if err := dst.FrozenView(fz2); err != nil {
						c.Fail("FrozenView/second-generation/view", "FrozenView of the re-frozen bytes (receiver is the mutated view itself=%v): %v", self, err)
						return
					}
					if d := checkEq(dst, vm.M); d != "" {
						c.Fail("FrozenView/second-generation/content", "view of the re-frozen bytes (receiver is the mutated view itself=%v): %s", self, d)
						return
					}
				}
				c.Eval(4)
				_ = fz2[len(fz2)-1]
			})
			if c.Failed() {
				return
			}
			// a second view of the same bytes takes part in a population machine: in-place algebra with the
			// view as receiver and as argument, aggregates containing it, derived bitmaps, mutations of all
			fv2 := roaring.New()
			if err := fv2.FrozenView(reg.Payload); err != nil {
				c.Fail("FrozenView/error", "second FrozenView failed: %v", err)
				return
			}
			p := newPop(c, PopMode{Interference: true, MaxLive: 5})
			k := p.add(&BM{B: fv2, M: m.Clone(), Form: "FrozenView", ZC: true, Reg: reg})
			c.Step("%s = second FrozenView of the same bytes, in a population machine", p.name(k))
			k2 := p.add(p.genFresh())
			c.Step("%s = fresh %s %v", p.name(k2), p.live[k2].Form, descSet(p.live[k2].M))
			p.lastOp = "init"
			for i := 0; i < 30; i++ {
				if !p.Step() {
					return
				}
				if !reg.Intact() {
					c.Fail("FrozenView/caller-buffer-modified/after-"+p.lastOp, "the frozen buffer changed during a population step")
					return
				}
			}
			// the bytes must still be a valid frozen image of the original set
			fv3 := roaring.New()
			if err := fv3.MustFrozenView(reg.Payload); err != nil {
				c.Fail("FrozenView/bytes-no-longer-valid", "after the population machine the frozen bytes no longer validate: %v", err)
				return
			}
			if d := checkEq(fv3, m); d != "" {
				c.Fail("FrozenView/bytes-changed", "after the population machine a fresh view of the bytes differs from the original: %s", d)
			}
		}()
		if c.Failed() {
			return
		}
	}
}

func c13Frozen(c *Ctx) {
	bm := genSerBM(c)
	if c.Failed() {
		return
	}
	if !bm.M.IsEmpty() {
		c.Distinct(mix(bm.M.Hash(), kindVectorHash(bm.B)))
	}
	countKinds(c, "chunk_kind_", bm.B)
	c13Check(c, bm.B, bm.M, true)
	c.Sample(map[string]any{"unit": "frozen", "case_seed": c.CaseSeed, "frozen_bytes": bm.B.GetFrozenSizeInBytes(), "set": descSet(bm.M)})
}

func c13Huge(c *Ctx) {
	r := c.R
	b := roaring.New()
	m := NewISet()
	c.Step("bitmap with 65536 chunks")
	for k := uint64(0); k < 65536; k++ {
		switch k % 3 {
		case 0:
			v := k<<16 | r.Range(0, 65535)
			b.Add(uint32(v))
			m.Add(v)
		case 1:
			lo := k<<16 | r.Range(0, 60000)
			b.AddRange(lo, lo+100)
			m.AddRange(lo, lo+99)
		default:
			lo := k << 16
			b.AddRange(lo, lo+65536)
			m.AddRange(lo, lo+65535)
		}
	}
	c.Distinct(m.Hash())
	c13Check(c, b, m, false)
}
