package main

// Uniform driver over the two bit-sliced index implementations with a
// map[column]*big.Int reference model.

import (
	"bytes"
	"fmt"
	"math/big"
	"sort"

	"github.com/RoaringBitmap/roaring/v2"
	bsi32 "github.com/RoaringBitmap/roaring/v2/BitSliceIndexing"
	"github.com/RoaringBitmap/roaring/v2/roaring64"
)

type bsiModel map[uint64]*big.Int

func (m bsiModel) clone() bsiModel {
	o := bsiModel{}
	for k, v := range m {
		o[k] = new(big.Int).Set(v)
	}
	return o
}

func (m bsiModel) cols() []uint64 {
	out := make([]uint64, 0, len(m))
	for k := range m {
		out = append(out, k)
	}
	sort.Slice(out, func(i, j int) bool { return out[i] < out[j] })
	return out
}

func (m bsiModel) hasNegative() bool {
	for _, v := range m {
		if v.Sign() < 0 {
			return true
		}
	}
	return false
}

func (m bsiModel) String() string {
	s := "{"
	for i, k := range m.cols() {
		if i == 10 {
			s += " …"
			break
		}
		s += fmt.Sprintf(" %d:%s", k, m[k].String())
	}
	return s + fmt.Sprintf(" } (%d columns)", len(m))
}

// bsiX wraps one of the two implementations.
type bsiX struct {
	is64 bool
	b32  *bsi32.BSI
	b64  *roaring64.BSI
}

func newBSIX(is64 bool, max, min int64) *bsiX {
	if is64 {
		return &bsiX{is64: true, b64: roaring64.NewBSI(max, min)}
	}
	return &bsiX{b32: bsi32.NewBSI(max, min)}
}

func (x *bsiX) name() string {
	if x.is64 {
		return "BSI64"
	}
	return "BSI32"
}

func bm32(cols []uint64) *roaring.Bitmap {
	b := roaring.New()
	for _, c := range cols {
		b.Add(uint32(c))
	}
	return b
}

func bm64(cols []uint64) *roaring64.Bitmap {
	b := roaring64.New()
	for _, c := range cols {
		b.Add(c)
	}
	return b
}

func (x *bsiX) setValue(col uint64, v int64) {
	if x.is64 {
		x.b64.SetValue(col, v)
	} else {
		x.b32.SetValue(col, v)
	}
}

func (x *bsiX) setMany(cols []uint64, v int64) {
	if x.is64 {
		x.b64.SetMany(bm64(cols), v)
	} else {
		x.b32.SetMany(bm32(cols), v)
	}
}

// found returns the found-set argument: nil, a fresh bitmap, or the index's own existence bitmap.
func (x *bsiX) clearValues(cols []uint64, alias bool) {
	if x.is64 {
		fs := bm64(cols)
		if alias {
			fs = x.b64.GetExistenceBitmap()
		}
		x.b64.ClearValues(fs)
	} else {
		fs := bm32(cols)
		if alias {
			fs = x.b32.GetExistenceBitmap()
		}
		x.b32.ClearValues(fs)
	}
}

func (x *bsiX) increment(cols []uint64, mode int) { // mode 0 fresh set, 1 nil, 2 alias eBM, 3 IncrementAll
	if x.is64 {
		switch mode {
		case 0:
			x.b64.Increment(bm64(cols))
		case 1:
			x.b64.Increment(nil)
		case 2:
			x.b64.Increment(x.b64.GetExistenceBitmap())
		default:
			x.b64.IncrementAll()
		}
	} else {
		switch mode {
		case 0:
			x.b32.Increment(bm32(cols))
		case 1:
			x.b32.Increment(nil)
		case 2:
			x.b32.Increment(x.b32.GetExistenceBitmap())
		default:
			x.b32.IncrementAll()
		}
	}
}

func (x *bsiX) add(o *bsiX) {
	if x.is64 {
		x.b64.Add(o.b64)
	} else {
		x.b32.Add(o.b32)
	}
}

func (x *bsiX) parOr(par int, os ...*bsiX) {
	if x.is64 {
		l := make([]*roaring64.BSI, len(os))
		for i, o := range os {
			l[i] = o.b64
		}
		x.b64.ParOr(par, l...)
	} else {
		l := make([]*bsi32.BSI, len(os))
		for i, o := range os {
			l[i] = o.b32
		}
		x.b32.ParOr(par, l...)
	}
}

func (x *bsiX) getBig(col uint64) (*big.Int, bool) {
	if x.is64 {
		return x.b64.GetBigValue(col)
	}
	v, ok := x.b32.GetValue(col)
	return big.NewInt(v), ok
}

func (x *bsiX) getValue(col uint64) (int64, bool) {
	if x.is64 {
		return x.b64.GetValue(col)
	}
	return x.b32.GetValue(col)
}

func (x *bsiX) exists(col uint64) bool {
	if x.is64 {
		return x.b64.ValueExists(col)
	}
	return x.b32.ValueExists(col)
}

func (x *bsiX) card() uint64 {
	if x.is64 {
		return x.b64.GetCardinality()
	}
	return x.b32.GetCardinality()
}

func (x *bsiX) bitCount() int {
	if x.is64 {
		return x.b64.BitCount()
	}
	return x.b32.BitCount()
}

func (x *bsiX) clone() *bsiX {
	if x.is64 {
		return &bsiX{is64: true, b64: x.b64.Clone()}
	}
	return &bsiX{b32: x.b32.Clone()}
}

func (x *bsiX) retainCopy(cols []uint64) *bsiX {
	if x.is64 {
		return &bsiX{is64: true, b64: x.b64.NewBSIRetainSet(bm64(cols))}
	}
	return &bsiX{b32: x.b32.NewBSIRetainSet(bm32(cols))}
}

func (x *bsiX) marshalRoundTrip() (*bsiX, error) {
	if x.is64 {
		data, err := x.b64.MarshalBinary()
		if err != nil {
			return nil, err
		}
		o := roaring64.NewDefaultBSI()
		if err := o.UnmarshalBinary(data); err != nil {
			return nil, err
		}
		return &bsiX{is64: true, b64: o}, nil
	}
	data, err := x.b32.MarshalBinary()
	if err != nil {
		return nil, err
	}
	o := bsi32.NewDefaultBSI()
	if err := o.UnmarshalBinary(data); err != nil {
		return nil, err
	}
	return &bsiX{b32: o}, nil
}

func (x *bsiX) streamRoundTrip() (*bsiX, error) {
	if !x.is64 {
		return nil, nil
	}
	var buf bytes.Buffer
	n, err := x.b64.WriteTo(&buf)
	if err != nil {
		return nil, err
	}
	if n != int64(buf.Len()) {
		return nil, fmt.Errorf("WriteTo returned %d but wrote %d bytes", n, buf.Len())
	}
	o := roaring64.NewDefaultBSI()
	p, err := o.ReadFrom(bytes.NewReader(buf.Bytes()))
	if err != nil {
		return nil, err
	}
	if p != n {
		return nil, fmt.Errorf("ReadFrom consumed %d of %d bytes", p, n)
	}
	return &bsiX{is64: true, b64: o}, nil
}

// checkBSI compares every read API with the model. probe adds columns that do not exist.
func checkBSI(c *Ctx, x *bsiX, m bsiModel, sig string, probe []uint64) bool {
	ok := true
	c.Guard(sig, func() {
		if g := x.card(); g != uint64(len(m)) {
			c.Fail(sig+"/GetCardinality", "%s GetCardinality=%d, the model holds %d columns %s", x.name(), g, len(m), m)
			ok = false
			return
		}
		cols := append(m.cols(), probe...)
		for _, col := range cols {
			want, has := m[col]
			if x.exists(col) != has {
				c.Fail(sig+"/ValueExists", "%s ValueExists(%d)=%v want %v", x.name(), col, !has, has)
				ok = false
				return
			}
			g, gok := x.getBig(col)
			if gok != has || (has && g.Cmp(want) != 0) {
				cls := "value"
				if has && want.Sign() < 0 {
					cls = "negative-value"
				}
				c.Fail(sig+"/GetValue/"+cls, "%s column %d holds %v (exists=%v), the model has %v (exists=%v); BitCount=%d model=%s", x.name(), col, g, gok, want, has, x.bitCount(), m)
				ok = false
				return
			}
			if has && want.IsInt64() {
				gv, gvok := x.getValue(col)
				if !gvok || gv != want.Int64() {
					c.Fail(sig+"/GetValue/int64", "%s GetValue(%d)=(%d,%v) want %v", x.name(), col, gv, gvok, want)
					ok = false
					return
				}
			}
			c.Eval(2)
		}
		if x.is64 && len(cols) > 0 {
			// batch getters (with duplicates and missing columns)
			req := append([]uint64(nil), cols...)
			req = append(req, cols[0], cols[len(cols)-1])
			bigs := x.b64.GetBigValues(req)
			allInt := true
			for i, col := range req {
				want, has := m[col]
				if has != (bigs[i] != nil) || (has && bigs[i].Cmp(want) != 0) {
					c.Fail(sig+"/GetBigValues", "BSI64 GetBigValues[%d] (column %d) = %v want %v (exists=%v)", i, col, bigs[i], want, has)
					ok = false
					return
				}
				if has && !want.IsInt64() {
					allInt = false
				}
			}
			if allInt {
				vals, ex := x.b64.GetValues(req)
				for i, col := range req {
					want, has := m[col]
					if ex[i] != has || (has && vals[i] != want.Int64()) {
						c.Fail(sig+"/GetValues", "BSI64 GetValues[%d] (column %d) = (%d,%v) want %v (exists=%v)", i, col, vals[i], ex[i], want, has)
						ok = false
						return
					}
				}
			}
			c.Eval(2)
		}
	})
	return ok && !c.Failed()
}

var bsiCols32 = []uint64{0, 1, 2, 3, 7, 100, 65535, 65536, 65537, 1 << 20, 1<<32 - 2, 1<<32 - 1}
var bsiCols64 = []uint64{0, 1, 2, 65536, 1<<32 - 1, 1 << 32, 1<<32 + 1, 5 << 32, 1<<63 - 1, 1 << 63, maxU64 - 1, maxU64}

func genCol(r *Rng, is64 bool) uint64 {
	if is64 {
		if r.Chance(0.2) {
			return r.Range(0, 3)<<32 | r.Range(0, 50)
		}
		return bsiCols64[r.Intn(len(bsiCols64))]
	}
	if r.Chance(0.2) {
		return r.Range(0, 200000)
	}
	return bsiCols32[r.Intn(len(bsiCols32))]
}

func genCols(r *Rng, is64 bool, n int) []uint64 {
	m := map[uint64]bool{}
	for i := 0; i < n; i++ {
		m[genCol(r, is64)] = true
	}
	out := make([]uint64, 0, len(m))
	for k := range m {
		out = append(out, k)
	}
	sort.Slice(out, func(i, j int) bool { return out[i] < out[j] })
	return out
}

// genVal returns a value within [lo,hi] (both inclusive), boundary biased.
func genVal(r *Rng, lo, hi int64) int64 {
	cands := []int64{0, 1, -1, 2, 3, 7, 8, 15, 16, 255, 256, -2, -8, -128, -129, 1 << 20, -(1 << 20), 1<<31 - 1, 1 << 31, 1<<32 - 1, 1 << 32, -(1 << 32), 1<<62 - 1, 1 << 62, 1<<63 - 1, -(1 << 62), -1 << 63, lo, hi, lo + 1, hi - 1}
	for i := 0; i < 40; i++ {
		var v int64
		if r.Chance(0.6) {
			v = cands[r.Intn(len(cands))]
		} else {
			sh := uint(r.Intn(63))
			v = int64(r.Uint64()>>(63-sh)) - int64(uint64(1)<<sh)/2
		}
		if v >= lo && v <= hi {
			return v
		}
	}
	return lo
}
