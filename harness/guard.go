package main

// Guard memory: caller-owned buffers placed in an mmap'ed region between two
// PROT_NONE pages and switched to PROT_READ, so that a stray write (or an
// over/under-read) by the library faults at the exact instruction. With
// debug.SetPanicOnFault(true) the fault becomes a recoverable panic carrying the address.

import (
	"fmt"
	"runtime/debug"
	"sync"
	"syscall"
	"unsafe"
)

const pageSize = 4096

type GuardRegion struct {
	all     []byte // whole mapping incl. guard pages
	Payload []byte // slice handed to the library (cap == len)
	lo, hi  uintptr
	sum     uint64
	prot    int
}

func init() { debug.SetPanicOnFault(true) }

var (
	regionsMu  sync.Mutex
	allRegions []*GuardRegion
)

// classifyFault describes a recovered fault against all live guard regions.
func classifyFault(pv any) (string, bool) {
	if _, ok := faultAddr(pv); !ok {
		return "", false
	}
	regionsMu.Lock()
	defer regionsMu.Unlock()
	d, _ := describeFault(pv, allRegions...)
	return d, true
}

// NewGuard copies data into guard memory. endFlush places the last payload byte
// right before the trailing guard page; otherwise the payload starts page-aligned
// right after the leading guard page. align (power of two or 0) forces the start
// address alignment for end-flush placement by padding the end (only when needed).
func NewGuard(data []byte, endFlush bool) (*GuardRegion, error) {
	n := len(data)
	pages := (n + pageSize - 1) / pageSize
	if pages == 0 {
		pages = 1
	}
	if !endFlush {
		// room for a dirty capacity tail (see below)
		pages += 2
	}
	total := (pages + 2) * pageSize
	mem, err := syscall.Mmap(-1, 0, total, syscall.PROT_READ|syscall.PROT_WRITE, syscall.MAP_ANON|syscall.MAP_PRIVATE)
	if err != nil {
		return nil, err
	}
	if err := syscall.Mprotect(mem[:pageSize], syscall.PROT_NONE); err != nil {
		return nil, err
	}
	if err := syscall.Mprotect(mem[(pages+1)*pageSize:], syscall.PROT_NONE); err != nil {
		return nil, err
	}
	start := pageSize
	if endFlush {
		start = (pages+1)*pageSize - n
	}
	copy(mem[start:], data)
	capEnd := start + n
	if !endFlush {
		// the slice handed to the library is a prefix of a larger buffer of the caller: the bytes between
		// len and cap are the caller's (non-zero) and must be neither read as content nor written
		capEnd = (pages + 1) * pageSize
		for i := start + n; i < capEnd; i++ {
			mem[i] = 0xA5 ^ byte(i*31)
		}
	}
	g := &GuardRegion{all: mem}
	regionsMu.Lock()
	allRegions = append(allRegions, g)
	regionsMu.Unlock()
	g.Payload = mem[start : start+n : capEnd]
	g.lo = uintptr(unsafe.Pointer(&mem[0]))
	g.hi = g.lo + uintptr(total)
	g.sum = sumBytes(g.Payload)
	if err := g.Protect(syscall.PROT_READ); err != nil {
		return nil, err
	}
	return g, nil
}

func (g *GuardRegion) body() []byte {
	return g.all[pageSize : len(g.all)-pageSize]
}

func (g *GuardRegion) Protect(prot int) error {
	g.prot = prot
	return syscall.Mprotect(g.body(), prot)
}

// Contains reports whether addr lies in the mapping (payload or guard pages).
func (g *GuardRegion) Contains(addr uintptr) bool { return addr >= g.lo && addr < g.hi }

// InPayload reports whether addr lies in the payload bytes.
func (g *GuardRegion) InPayload(addr uintptr) bool {
	if len(g.Payload) == 0 {
		return false
	}
	p := uintptr(unsafe.Pointer(&g.Payload[0]))
	return addr >= p && addr < p+uintptr(len(g.Payload))
}

// Intact re-computes the checksum of the payload (region must be readable).
func (g *GuardRegion) Intact() bool {
	if g.prot == syscall.PROT_NONE {
		return true
	}
	return sumBytes(g.Payload) == g.sum
}

func (g *GuardRegion) Free() {
	if g.all != nil {
		regionsMu.Lock()
		for i, x := range allRegions {
			if x == g {
				allRegions = append(allRegions[:i], allRegions[i+1:]...)
				break
			}
		}
		regionsMu.Unlock()
		syscall.Munmap(g.all)
		g.all = nil
	}
}

func sumBytes(b []byte) uint64 {
	h := uint64(1469598103934665603)
	for _, x := range b {
		h = hstep(h, uint64(x))
	}
	return h
}

// faultAddr extracts the faulting address from a recovered runtime.Error (SetPanicOnFault).
func faultAddr(pv any) (uintptr, bool) {
	type addrer interface{ Addr() uintptr }
	if a, ok := pv.(addrer); ok {
		return a.Addr(), true
	}
	return 0, false
}

func describeFault(pv any, regions ...*GuardRegion) (string, bool) {
	a, ok := faultAddr(pv)
	if !ok {
		return "", false
	}
	for i, g := range regions {
		if g != nil && g.Contains(a) {
			where := "guard page"
			if g.InPayload(a) {
				where = fmt.Sprintf("payload offset %d of %d", a-uintptr(unsafe.Pointer(&g.Payload[0])), len(g.Payload))
			} else if len(g.Payload) > 0 && a < uintptr(unsafe.Pointer(&g.Payload[0])) {
				where = "before the payload (under-read/guard)"
			} else {
				where = "after the payload (over-read/guard)"
			}
			return fmt.Sprintf("memory fault at %#x in caller buffer #%d: %s", a, i, where), true
		}
	}
	return fmt.Sprintf("memory fault at %#x outside the monitored regions", a), false
}

// Words reinterprets the payload as 64-bit words (payload length must be a multiple of 8).
func (g *GuardRegion) Words() []uint64 {
	if len(g.Payload) == 0 {
		return nil
	}
	return unsafe.Slice((*uint64)(unsafe.Pointer(&g.Payload[0])), cap(g.Payload)/8)[:len(g.Payload)/8]
}
