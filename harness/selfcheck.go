package main

// selfcheck validates the reference models against brute force (run by setup.sh and
// before every check): a model bug must not look like a library bug.

import (
	"fmt"
)

func selfcheck() int {
	bad := 0
	fail := func(f string, a ...any) {
		bad++
		if bad < 20 {
			fmt.Printf("SELFCHECK FAILED: "+f+"\n", a...)
		}
	}
	const U = 1 << 12
	// offsets map the small universe onto interesting places of uint64
	for _, off := range []uint64{0, 65536 - U/2, 1<<32 - U/2, maxU64 - U + 1} {
		for seed := uint64(1); seed <= 40; seed++ {
			r := NewRng(seed*977 + off)
			s := NewISet()
			bs := make([]bool, U)
			t := NewISet()
			bt := make([]bool, U)
			for step := 0; step < 300; step++ {
				a := r.Range(0, U-1)
				b := r.Range(0, U-1)
				if a > b {
					a, b = b, a
				}
				if r.Chance(0.5) {
					b = minU(b, a+r.Range(0, 40))
				}
				tgt, btgt := s, bs
				if r.Chance(0.3) {
					tgt, btgt = t, bt
				}
				switch r.Intn(6) {
				case 0:
					got := tgt.Add(a + off)
					if got == btgt[a] {
						fail("Add return")
					}
					btgt[a] = true
				case 1:
					got := tgt.Remove(a + off)
					if got != btgt[a] {
						fail("Remove return")
					}
					btgt[a] = false
				case 2:
					tgt.AddRange(a+off, b+off)
					for i := a; i <= b; i++ {
						btgt[i] = true
					}
				case 3:
					tgt.RemoveRange(a+off, b+off)
					for i := a; i <= b; i++ {
						btgt[i] = false
					}
				case 4:
					tgt.FlipRange(a+off, b+off)
					for i := a; i <= b; i++ {
						btgt[i] = !btgt[i]
					}
				case 5:
					// algebra
					ops := []func(*ISet) *ISet{s.And, s.Or, s.Xor, s.AndNot}
					k := r.Intn(4)
					res := ops[k](t)
					for i := 0; i < U; i++ {
						var w bool
						switch k {
						case 0:
							w = bs[i] && bt[i]
						case 1:
							w = bs[i] || bt[i]
						case 2:
							w = bs[i] != bt[i]
						case 3:
							w = bs[i] && !bt[i]
						}
						if res.Contains(uint64(i)+off) != w {
							fail("algebra op %d at %d", k, i)
							break
						}
					}
					if !res.wellFormed() {
						fail("algebra result not well formed")
					}
				}
				if !tgt.wellFormed() {
					fail("not well formed after step")
				}
			}
			// queries
			card := uint64(0)
			first, last := -1, -1
			for i := 0; i < U; i++ {
				if bs[i] {
					card++
					if first < 0 {
						first = i
					}
					last = i
				}
			}
			if s.Card() != card {
				fail("Card %d want %d", s.Card(), card)
			}
			if mn, ok := s.Min(); ok != (first >= 0) || (ok && mn != uint64(first)+off) {
				fail("Min")
			}
			if mx, ok := s.Max(); ok != (last >= 0) || (ok && mx != uint64(last)+off) {
				fail("Max")
			}
			rank := uint64(0)
			vals := s.Values()
			if uint64(len(vals)) != card {
				fail("Values len")
			}
			k := 0
			for i := 0; i < U; i++ {
				x := uint64(i) + off
				if bs[i] {
					if sv, ok := s.Select(rank); !ok || sv != x {
						fail("Select(%d)", rank)
					}
					if k < len(vals) && vals[k] != x {
						fail("Values order")
					}
					k++
					rank++
				}
				if s.Contains(x) != bs[i] {
					fail("Contains")
				}
				if off == 0 && s.Rank(x) != rank {
					fail("Rank(%d)=%d want %d", x, s.Rank(x), rank)
				}
				// neighbours (brute force inside the window)
				nx, pv, na, pa := -1, -1, -1, -1
				for j := i; j < U; j++ {
					if bs[j] && nx < 0 {
						nx = j
					}
					if !bs[j] && na < 0 {
						na = j
					}
					if nx >= 0 && na >= 0 {
						break
					}
				}
				for j := i; j >= 0; j-- {
					if bs[j] && pv < 0 {
						pv = j
					}
					if !bs[j] && pa < 0 {
						pa = j
					}
					if pv >= 0 && pa >= 0 {
						break
					}
				}
				if g, ok := s.Next(x); ok != (nx >= 0) || (ok && g != uint64(nx)+off) {
					fail("Next(%d)", x)
				}
				if g, ok := s.Prev(x); ok != (pv >= 0) || (ok && g != uint64(pv)+off) {
					fail("Prev(%d)", x)
				}
				umax := off + U - 1
				if g, ok := s.NextAbsent(x, umax); ok != (na >= 0) || (ok && g != uint64(na)+off) {
					fail("NextAbsent(%d)=%d,%v want %d", x, g, ok, na)
				}
				if off == 0 {
					if g, ok := s.PrevAbsent(x); ok != (pa >= 0) || (ok && g != uint64(pa)+off) {
						fail("PrevAbsent(%d)", x)
					}
				}
			}
			if _, ok := s.Select(card); ok {
				fail("Select(card) succeeded")
			}
			// CountRange, Restrict, Complement, Shift
			for q := 0; q < 30; q++ {
				a := r.Range(0, U-1)
				b := r.Range(0, U-1)
				if a > b {
					a, b = b, a
				}
				cnt := uint64(0)
				for i := a; i <= b; i++ {
					if bs[i] {
						cnt++
					}
				}
				if s.CountRange(a+off, b+off) != cnt {
					fail("CountRange")
				}
				if s.Restrict(a+off, b+off).Card() != cnt {
					fail("Restrict")
				}
				if s.ComplementIn(a+off, b+off).Card() != (b-a+1)-cnt {
					fail("ComplementIn")
				}
				if off == 0 {
					d := int64(r.Range(0, 2*U)) - U
					sh := s.Shift(d, U-1)
					for i := 0; i < U; i++ {
						src := int64(i) - d
						w := src >= 0 && src < U && bs[src]
						if sh.Contains(uint64(i)) != w {
							fail("Shift(%d) at %d", d, i)
							break
						}
					}
					if !sh.wellFormed() {
						// Shift may produce adjacent intervals only if input had them
						fail("Shift result not well formed")
					}
				}
			}
			c2 := ISetFromValues(vals)
			if !c2.Equal(s) {
				fail("ISetFromValues")
			}
			if h1, h2 := s.Hash(), s.Clone().Hash(); h1 != h2 {
				fail("Hash")
			}
		}
	}
	// the other models
	bad += selfcheckExtra()
	if bad > 0 {
		fmt.Printf("selfcheck: %d failures\n", bad)
		return 1
	}
	fmt.Println("selfcheck: reference models agree with brute force")
	return 0
}
