package main

// Independent objects on independent goroutines (race build).
//
// The library's types are documented as not safe for concurrent use of ONE object, but distinct bitmaps used
// from distinct goroutines must not influence each other. The serializers and decoders are the place where
// that can go wrong, because they may keep process-wide scratch state (reader adapters are recycled through
// sync.Pools today). Each goroutine owns a bitmap, its model and its buffers; it serializes through every
// writer into a writer that yields the processor inside Write, decodes through every entry point from a
// reader that yields inside Read, mutates its bitmap now and then, and checks everything against its own
// model and an independent decoder. The race detector observes the library's accesses; the functional oracle
// observes cross-talk that is properly synchronized but still wrong (e.g. a pooled buffer handed back early).

import (
	"bytes"
	"fmt"
	"io"
	"runtime"
	"sync"

	"github.com/RoaringBitmap/roaring/v2"
	"github.com/RoaringBitmap/roaring/v2/roaring64"
)

// yieldWriter appends to its own buffer and yields before or after copying.
type yieldWriter struct {
	buf   []byte
	n     int
	first bool
}

func (w *yieldWriter) Write(p []byte) (int, error) {
	w.n++
	if w.first {
		runtime.Gosched()
		w.buf = append(w.buf, p...)
	} else {
		w.buf = append(w.buf, p...)
		runtime.Gosched()
	}
	w.first = !w.first
	return len(p), nil
}

// yieldReader delivers the stream in small pieces and yields between them.
type yieldReader struct {
	data []byte
	step int
}

func (r *yieldReader) Read(p []byte) (int, error) {
	if len(r.data) == 0 {
		return 0, io.EOF
	}
	n := r.step
	if n > len(p) {
		n = len(p)
	}
	if n > len(r.data) {
		n = len(r.data)
	}
	copy(p, r.data[:n])
	r.data = r.data[n:]
	runtime.Gosched()
	return n, nil
}

type concErrs struct {
	mu   sync.Mutex
	list [][2]string
}

func (e *concErrs) add(sig, msg string) {
	e.mu.Lock()
	if len(e.list) < 20 {
		e.list = append(e.list, [2]string{sig, msg})
	}
	e.mu.Unlock()
}

// concIndependent runs G goroutines of the given kind ("portable32", "frozen32", "portable64").
func concIndependent(c *Ctx, kind string) {
	r := c.R
	G := []int{4, 16, 32}[r.Intn(3)]
	procs := []int{1, 2, 4, 16}[r.Intn(4)]
	iters := 60
	if c.Tier == "thorough" {
		iters = 200
	}
	old := runtime.GOMAXPROCS(procs)
	defer runtime.GOMAXPROCS(old)
	type owner struct {
		seed uint64
		b    *roaring.Bitmap
		m    *ISet
		b64  *roaring64.Bitmap
		m64  *ISet
	}
	owners := make([]*owner, G)
	for i := range owners {
		o := &owner{seed: r.Uint64()}
		if kind == "portable64" {
			o.m64 = genSet64(r, 6)
			bm, es := build64(r, o.m64, []string{"add", "addmany", "range", "opt", "cowclone"}[r.Intn(5)])
			if es != "" {
				c.Fail("build64", "%s", es)
				return
			}
			o.b64, o.m64 = bm.B, bm.M
		} else {
			m, _ := genSet(r, GenOpts{MaxChunks: 6, HeavyP: 0.3})
			form := formsNoZC[r.Intn(len(formsNoZC))]
			bm, es := buildForm(r, m, form)
			if es != "" {
				c.Fail("build/"+form, "%s", es)
				return
			}
			o.b, o.m = bm.B, bm.M
		}
		owners[i] = o
	}
	c.Step("%s: %d goroutines x %d iterations, GOMAXPROCS=%d, each on its own bitmap", kind, G, iters, procs)
	c.Distinct(mix(c.CaseSeed, uint64(G*100+procs)))
	errs := &concErrs{}
	var wg sync.WaitGroup
	var evals int64
	var emu sync.Mutex
	for g := 0; g < G; g++ {
		wg.Add(1)
		go func(g int) {
			defer wg.Done()
			o := owners[g]
			lr := NewRng(o.seed)
			n := int64(0)
			defer func() {
				if rec := recover(); rec != nil {
					errs.add(kind+"/panic", fmt.Sprintf("goroutine %d panicked: %v", g, rec))
				}
				emu.Lock()
				evals += n
				emu.Unlock()
			}()
			for it := 0; it < iters; it++ {
				var sig, msg string
				switch kind {
				case "portable32":
					sig, msg = concPortable32(lr, o.b, o.m, it)
				case "frozen32":
					sig, msg = concFrozen32(lr, o.b, o.m, it)
				default:
					sig, msg = concPortable64(lr, o.b64, o.m64, it)
				}
				n += 6
				if sig != "" {
					errs.add(kind+"/"+sig, fmt.Sprintf("goroutine %d of %d, iteration %d: %s", g, G, it, msg))
					return
				}
				// private mutation now and then
				if lr.Chance(0.3) {
					if kind == "portable64" {
						v := lr.Range(0, 4)<<32 | lr.Range(0, 70000)
						if lr.Chance(0.5) {
							o.b64.Add(v)
							o.m64.Add(v)
						} else {
							o.b64.Remove(v)
							o.m64.Remove(v)
						}
					} else {
						v := lr.Range(0, 6)<<16 | lr.Range(0, 65535)
						switch lr.Intn(3) {
						case 0:
							o.b.Add(uint32(v))
							o.m.Add(v)
						case 1:
							o.b.Remove(uint32(v))
							o.m.Remove(v)
						default:
							o.b.RunOptimize()
						}
					}
				}
			}
		}(g)
	}
	wg.Wait()
	c.Eval(evals)
	c.Count("goroutines_run_" + kind)
	for _, e := range errs.list {
		c.Fail("independent-goroutines/"+e[0], "%s", e[1])
	}
	c.Sample(map[string]any{"unit": c.Unit, "case_seed": c.CaseSeed, "goroutines": G, "gomaxprocs": procs, "iterations": iters})
}

func concPortable32(lr *Rng, b *roaring.Bitmap, m *ISet, it int) (string, string) {
	ref, err := b.ToBytes()
	if err != nil {
		return "ToBytes/error", err.Error()
	}
	if got, _, _, err := specDecode(ref); err != nil || !got.Equal(m) {
		return "ToBytes/independent-decoder", fmt.Sprintf("the bytes of ToBytes do not decode to the owner's set (err=%v)", err)
	}
	yw := &yieldWriter{first: it%2 == 0}
	n, err := b.WriteTo(yw)
	if err != nil || n != int64(len(yw.buf)) || !bytes.Equal(yw.buf, ref) {
		return "WriteTo/bytes", fmt.Sprintf("WriteTo through a yielding writer gave n=%d err=%v, %d bytes, equal to ToBytes: %v", n, err, len(yw.buf), bytes.Equal(yw.buf, ref))
	}
	if mb, err := b.MarshalBinary(); err != nil || !bytes.Equal(mb, ref) {
		return "MarshalBinary/bytes", fmt.Sprintf("MarshalBinary differs from ToBytes (err=%v)", err)
	}
	s64, err := b.ToBase64()
	if err != nil {
		return "ToBase64/error", err.Error()
	}
	d := roaring.New()
	var derr error
	var name string
	switch it % 5 {
	case 0:
		name = "ReadFrom(yielding reader)"
		_, derr = d.ReadFrom(&yieldReader{data: ref, step: 1 + int(lr.Range(0, 40))})
	case 1:
		name = "FromBuffer"
		_, derr = d.FromBuffer(append([]byte(nil), ref...))
	case 2:
		name = "FromUnsafeBytes"
		_, derr = d.FromUnsafeBytes(append([]byte(nil), ref...))
	case 3:
		name = "UnmarshalBinary"
		derr = d.UnmarshalBinary(ref)
	default:
		name = "FromBase64"
		_, derr = d.FromBase64(s64)
	}
	if derr != nil {
		return "decode/error", fmt.Sprintf("%s of the owner's own stream: %v", name, derr)
	}
	if ds := checkEq(d, m); ds != "" {
		return "decode/content", fmt.Sprintf("%s: %s", name, ds)
	}
	return "", ""
}

func concFrozen32(lr *Rng, b *roaring.Bitmap, m *ISet, it int) (string, string) {
	ref, err := b.Freeze()
	if err != nil {
		return "Freeze/error", err.Error()
	}
	if got, _, err := frozenDecode(ref); err != nil || !got.Equal(m) {
		return "Freeze/independent-decoder", fmt.Sprintf("the bytes of Freeze do not decode to the owner's set (err=%v)", err)
	}
	if uint64(len(ref)) != b.GetFrozenSizeInBytes() {
		return "GetFrozenSizeInBytes", fmt.Sprintf("Freeze wrote %d bytes, GetFrozenSizeInBytes=%d", len(ref), b.GetFrozenSizeInBytes())
	}
	yw := &yieldWriter{first: it%2 == 0}
	n, err := b.WriteFrozenTo(yw)
	if err != nil || n != len(yw.buf) || !bytes.Equal(yw.buf, ref) {
		return "WriteFrozenTo/bytes", fmt.Sprintf("WriteFrozenTo through a yielding writer gave n=%d err=%v, %d bytes, equal to Freeze: %v", n, err, len(yw.buf), bytes.Equal(yw.buf, ref))
	}
	dst := make([]byte, len(ref)+int(lr.Range(0, 9)))
	if n, err := b.FreezeTo(dst); err != nil || n != len(ref) || !bytes.Equal(dst[:n], ref) {
		return "FreezeTo/bytes", fmt.Sprintf("FreezeTo gave n=%d err=%v, equal to Freeze: %v", n, err, err == nil && n == len(ref) && bytes.Equal(dst[:n], ref))
	}
	v := roaring.New()
	if err := v.FrozenView(ref); err != nil {
		return "FrozenView/error", err.Error()
	}
	if ds := checkEq(v, m); ds != "" {
		return "FrozenView/content", ds
	}
	if err := v.Validate(); err != nil {
		return "FrozenView/validate", err.Error()
	}
	return "", ""
}

func concPortable64(lr *Rng, b *roaring64.Bitmap, m *ISet, it int) (string, string) {
	ref, err := b.ToBytes()
	if err != nil {
		return "ToBytes/error", err.Error()
	}
	if uint64(len(ref)) != b.GetSerializedSizeInBytes() {
		return "GetSerializedSizeInBytes", fmt.Sprintf("ToBytes wrote %d bytes, GetSerializedSizeInBytes=%d", len(ref), b.GetSerializedSizeInBytes())
	}
	yw := &yieldWriter{first: it%2 == 0}
	n, err := b.WriteTo(yw)
	if err != nil || n != int64(len(yw.buf)) || !bytes.Equal(yw.buf, ref) {
		return "WriteTo/bytes", fmt.Sprintf("WriteTo through a yielding writer gave n=%d err=%v, %d bytes, equal to ToBytes: %v", n, err, len(yw.buf), bytes.Equal(yw.buf, ref))
	}
	if mb, err := b.MarshalBinary(); err != nil || !bytes.Equal(mb, ref) {
		return "MarshalBinary/bytes", fmt.Sprintf("MarshalBinary differs from ToBytes (err=%v)", err)
	}
	s64, err := b.ToBase64()
	if err != nil {
		return "ToBase64/error", err.Error()
	}
	d := roaring64.New()
	var derr error
	var name string
	switch it % 4 {
	case 0:
		name = "ReadFrom(yielding reader)"
		_, derr = d.ReadFrom(&yieldReader{data: ref, step: 1 + int(lr.Range(0, 40))})
	case 1:
		name = "FromUnsafeBytes"
		_, derr = d.FromUnsafeBytes(append([]byte(nil), ref...))
	case 2:
		name = "UnmarshalBinary"
		derr = d.UnmarshalBinary(ref)
	default:
		name = "FromBase64"
		_, derr = d.FromBase64(s64)
	}
	if derr != nil {
		return "decode/error", fmt.Sprintf("%s of the owner's own stream: %v", name, derr)
	}
	if ds := checkEq64(d, m); ds != "" {
		return "decode/content", fmt.Sprintf("%s: %s", name, ds)
	}
	return "", ""
}
