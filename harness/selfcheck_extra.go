package main

func selfcheckExtra() int { return 0 }
