package main

import (
	"bytes"
	"encoding/base64"
	"encoding/binary"
	"fmt"
	"os"
	"path/filepath"
	"strings"

	"github.com/RoaringBitmap/roaring/v2"
)

func init() {
	register(&Property{
		ID: "C10", Level: "fault_enumeration", Builds: []string{"plain", "checkptr"},
		Rule:        "inputs = (a) ALL proper prefixes of valid portable streams <= 4 KiB (sampled prefixes above) which every portable decoder must reject; (b) structure-aware corruptions of valid portable streams made through an independent codec: cookie, size field (0,+-1,65536,65537,2^32-1), keys (swap, duplicate, descending), cardinality fields (+-1,0,0xFFFF, array/bitmap threshold), offsets (garbage), arrays (unsorted, duplicate), bitmaps (popcount != cardinality), runs (count 0, unsorted, overlapping, adjacent, start+length wrapping past 65535, more runs than efficient), run-flag bits; (c) the frozen analogues (header count 0..2^17, type codes 0/4/255, counts +-1, bitmap chunk with <=4096 values, array chunk >4096, run count 0, wrapping/overlapping runs, misplaced arenas, trailing bytes, truncation); (d) random bit flips and random byte strings; (e) the repository's testdata/crash*.bin. Every input is placed in guard memory twice (ending at a PROT_NONE page, and starting after one) and fed to ReadFrom, FromBuffer, FromUnsafeBytes, UnmarshalBinary, FromBase64, FrozenView, plus MustReadFrom / MustFrozenView: a panic, a memory fault or an accepted prefix is a violation. Inputs that are accepted AND pass Validate() run a consistency battery (raw containers vs ToArray vs iterators vs queries, algebra with a valid bitmap against a model rebuilt from ToArray, portable and frozen re-serialization round trip). Accepted-but-invalid inputs are only counted. Non-trivial: a corrupted or truncated input; distinct = hash of the input bytes. Added units: prefixes of 65536-chunk streams (both cookies); frozen images synthesized from header fields under four arena-length arithmetics; the complete valid stream / image into fresh and used receivers (a validated result must be the encoded set); receiver growth x stream size.",
		Assumptions: []string{"using a bitmap that failed Validate() is documented user error and not judged", "hangs are judged by the parent's watchdog (bounded progress)"},
		Units: []Unit{
			{Name: "prefixes@plain,checkptr", Quick: 260, Thorough: 8000, Run: c10Prefixes},
			{Name: "prefixes-of-65536-chunk-streams@plain", Quick: 4, Thorough: 40, Run: c10HugePrefixes},
			// valid streams into receivers with a growth history: a decoder must not panic on (or mis-read) them either
			{Name: "receiver-growth-x-stream-size@plain", ExhaustiveN: growthCases, RunIndexed: func(c *Ctx, i int) { receiverGrowthCase(c, i, i%2 == 1) }},
			{Name: "corrupt-portable@plain,checkptr", Quick: 4000, Thorough: 300000, Run: c10CorruptPortable},
			{Name: "corrupt-frozen@plain,checkptr", Quick: 4000, Thorough: 300000, Run: c10CorruptFrozen},
			{Name: "synthesized-frozen@plain,checkptr", Quick: 2500, Thorough: 300000, Run: c10SynthFrozen},
			{Name: "random-bytes@plain,checkptr", Quick: 3000, Thorough: 200000, Run: c10Random},
			{Name: "repository-crashers@plain", Quick: 1, Thorough: 1, Run: c10Crashers, Serial: true},
			{Name: "mustreadfrom@plain", Quick: 1500, Thorough: 60000, Run: c10MustReadFrom},
			{Name: "pinned-known-finding@plain", Quick: 1, Thorough: 1, Run: c10PinnedKnown, Serial: true},
		},
	})
}

type decOutcome struct {
	name     string
	err      error
	b        *roaring.Bitmap
	panicked bool
}

// feedAll feeds data to every decoder through guard memory; returns accepted bitmaps.
// kindHint: "portable" or "frozen" (only used for classification).
func feedAll(c *Ctx, data []byte, sig string, expectReject bool) ([]decOutcome, func()) {
	var out []decOutcome
	var regs []*GuardRegion
	cleanup := func() {
		for _, g := range regs {
			g.Free()
		}
	}
	placements := []bool{true, false}
	for _, endFlush := range placements {
		reg, err := NewGuard(data, endFlush)
		if err != nil {
			c.Note("mmap failed: " + err.Error())
			return out, cleanup
		}
		// zero-copy results alias the region: it stays mapped until the caller is done with them
		regs = append(regs, reg)
		pl := "start-flush"
		if endFlush {
			pl = "end-flush"
		}
		type ent struct {
			name string
			run  func(dst *roaring.Bitmap) error
		}
		ents := []ent{
			{"FromBuffer", func(dst *roaring.Bitmap) error { _, e := dst.FromBuffer(reg.Payload); return e }},
			{"FromUnsafeBytes", func(dst *roaring.Bitmap) error { _, e := dst.FromUnsafeBytes(reg.Payload); return e }},
			{"UnmarshalBinary", func(dst *roaring.Bitmap) error { return dst.UnmarshalBinary(reg.Payload) }},
			{"ReadFrom", func(dst *roaring.Bitmap) error { _, e := dst.ReadFrom(bytes.NewReader(reg.Payload)); return e }},
		}
		if curVariant != "checkptr" || true {
			ents = append(ents, ent{"FrozenView", func(dst *roaring.Bitmap) error { return dst.FrozenView(reg.Payload) }})
		}
		if endFlush {
			// base64 text is a copy anyway: once is enough
			ents = append(ents, ent{"FromBase64", func(dst *roaring.Bitmap) error {
				_, e := dst.FromBase64(base64.StdEncoding.EncodeToString(data))
				return e
			}})
		}
		for _, e := range ents {
			dst := roaring.New()
			if c.R.Chance(0.25) {
				// decoders must also be safe on a receiver that was used before
				dst, _ = reusedReceiver(c)
			}
			o := decOutcome{name: e.name}
			pv, st := Try(func() { o.err = e.run(dst) })
			c.Eval(1)
			if pv != nil {
				o.panicked = true
				if d, isFault := classifyFault(pv); isFault {
					c.Fail(sig+"/"+e.name+"/reads-outside-input", "%s (%s) touched memory outside the given bytes: %s\n%v\n%s", e.name, pl, d, pv, st)
				} else {
					c.Fail(sig+"/"+e.name+"/panic", "%s (%s) panicked on untrusted input (%d bytes): %v\n%s", e.name, pl, len(data), pv, st)
				}
				continue
			}
			if o.err == nil {
				o.b = dst
				c.Count("accepted_" + e.name)
				if expectReject && e.name != "FrozenView" {
					c.Fail(sig+"/"+e.name+"/accepted", "%s accepted a proper prefix (%d bytes) of a valid portable stream", e.name, len(data))
				}
			} else {
				c.Count("rejected_" + e.name)
			}
			out = append(out, o)
		}
	}
	return out, cleanup
}

// feedValid feeds a VALID image (portable or frozen) of the set m to every decoder - a quarter of the receivers have
// been used before - and requires that a decoder that accepts it and whose result validates holds exactly m: a
// validated bitmap must be the set its bytes encode, not whatever the receiver held before.
func feedValid(c *Ctx, data []byte, m *ISet, frozen bool, sig string) {
	outs, done := feedAll(c, data, sig, false)
	defer done()
	for _, o := range outs {
		if c.Failed() {
			return
		}
		isFrozenEntry := o.name == "FrozenView"
		if o.b == nil {
			if !frozen && !isFrozenEntry && !o.panicked {
				c.Fail(sig+"/"+o.name+"/rejects-valid-image", "%s rejects a valid image written by the library (%d bytes): %v", o.name, len(data), o.err)
			}
			continue
		}
		if isFrozenEntry != frozen {
			continue // a portable image read as frozen (or the reverse) is just arbitrary bytes for that decoder
		}
		var verr error
		if pv, st := Try(func() { verr = o.b.Validate() }); pv != nil {
			c.Fail(sig+"/"+o.name+"/Validate-panics", "Validate panicked on a decoded valid image: %v\n%s", pv, st)
			return
		}
		if verr != nil {
			// a spec-conformant stream of another encoder (non-maximal runs, run chunks that are not the smallest form) is
			// readable but need not validate: only validated results are judged here
			c.Count("valid_image_accepted_but_not_canonical")
			continue
		}
		if d := checkEq(o.b, m); d != "" {
			c.Fail(sig+"/"+o.name+"/validated-bitmap-is-not-the-encoded-set", "%s accepted a valid image and the result validates, but it is not the set the bytes encode: %s", o.name, d)
			return
		}
		c.Eval(2)
		c.Count("valid_image_decoded_" + o.name)
	}
}

// consistency runs the "Validate()==nil means safe to use" battery on an accepted bitmap.
func consistency(c *Ctx, o decOutcome, sig string) { consistencyLevel(c, o, sig, true) }

// consistencyLevel: heavy=false stops after the structural / ToArray comparison.
func consistencyLevel(c *Ctx, o decOutcome, sig string, heavy bool) {
	b := o.b
	var verr error
	if pv, st := Try(func() { verr = b.Validate() }); pv != nil {
		c.Fail(sig+"/"+o.name+"/Validate-panics", "Validate panicked on a decoded bitmap: %v\n%s", pv, st)
		return
	}
	if verr != nil {
		c.Count("accepted_but_invalid")
		return
	}
	c.Count("accepted_and_validated")
	pre := "validated/" + o.name
	c.Guard(pre, func() {
		vs, problems, _ := viewSet(b)
		card := b.GetCardinality()
		if len(problems) > 0 {
			cls := problemClass(problems[0])
			if cls == "bitmap-chunk-undersized" && strings.Contains(problems[0], "card=4096") {
				cls = "bitmap-chunk-card-4096"
			}
			c.Fail("validated/"+cls, "%s accepted the input (%s) and Validate()==nil, but the raw containers break the invariants: %v", o.name, sig, problems)
			return
		}
		if card != vs.Card() {
			c.Fail(pre+"/GetCardinality", "GetCardinality=%d but the stored content has %d values", card, vs.Card())
			return
		}
		if card > 1<<21 {
			return
		}
		as := apiSet(b)
		if !as.Equal(vs) {
			d, _ := as.FirstDiff(vs)
			c.Fail(pre+"/ToArray-vs-stored", "ToArray and the stored content differ at %d", d)
			return
		}
		m := as
		bm := &BM{B: b, M: m, ZC: true}
		if !heavy {
			queryBattery(c, bm, 2)
			return
		}
		queryBattery(c, bm, 6)
		if c.Failed() {
			return
		}
		driveIterator(c, b.Iterator(), m, "validated-Iterator")
		driveReverse(c, b.ReverseIterator(), m, "validated-ReverseIterator")
		driveMany(c, b.ManyIterator(), m, "validated-ManyIterator")
		if c.Failed() {
			return
		}
		// algebra with a valid bitmap
		om, _ := genSet(c.R, GenOpts{MaxChunks: 3, HeavyP: 0.4})
		if !m.IsEmpty() && c.R.Chance(0.7) {
			// overlap the decoded bitmap's chunks
			om = om.Or(m.Restrict(m.iv[0].Lo&^0xFFFF, m.iv[0].Lo|0xFFFF)).Xor(ISetOf(IV{m.iv[0].Lo, minU(max32, m.iv[0].Lo+5)}))
		}
		other, es := buildForm(c.R, om, formsNoZC[c.R.Intn(len(formsNoZC))])
		if es != "" {
			return
		}
		for _, op := range binOps {
			want := modelOp(op, m, om)
			res := staticOp(op, b, other.B)
			if d := checkEq(res, want); d != "" {
				c.Fail(pre+"/"+op, "%s with a valid bitmap: %s", op, d)
				return
			}
			want2 := modelOp(op, om, m)
			cl := other.B.Clone()
			inplaceOp(op, cl, b)
			if d := checkEq(cl, want2); d != "" {
				c.Fail(pre+"/"+op+"-inplace-arg", "valid.%s(decoded): %s", op, d)
				return
			}
			c.Eval(2)
		}
		// re-serialization
		wire, err := b.ToBytes()
		if err != nil {
			cls := "other"
			v := b.VerifView()
			for _, s := range v.Slots {
				if s.Kind == roaring.VerifBitmap && s.Card == 4096 {
					cls = "bitmap-chunk-card-4096"
				}
			}
			c.Fail("validated/reserialize-fails/"+cls, "%s accepted the input, Validate()==nil, but ToBytes fails: %v", o.name, err)
			return
		}
		rt := roaring.New()
		if _, err := rt.ReadFrom(bytes.NewReader(wire)); err != nil {
			c.Fail(pre+"/reserialize-unreadable", "the re-serialized bitmap cannot be read back: %v", err)
			return
		}
		if d := checkEq(rt, m); d != "" {
			c.Fail(pre+"/reserialize-roundtrip", "re-serialization does not round-trip: %s", d)
			return
		}
		fz, err := b.Freeze()
		if err == nil {
			fv := roaring.New()
			if err := fv.FrozenView(fz); err != nil {
				c.Fail(pre+"/refreeze-unreadable", "Freeze output of a validated bitmap is rejected by FrozenView: %v", err)
				return
			}
			if d := checkEq(fv, m); d != "" {
				c.Fail(pre+"/refreeze-roundtrip", "%s", d)
			}
			_ = fz[len(fz)-1:]
		}
		c.Eval(4)
		// a few mutations (copying writes on possibly zero-copy memory)
		for i := 0; i < 6 && !c.Failed(); i++ {
			op := mutateStep(c, bm, MutOpts{Light: true, NoClone: true, Sig: pre + "/then-"})
			if c.Failed() {
				return
			}
			if d := checkEq(bm.B, bm.M); d != "" {
				c.Fail(pre+"/then-"+op, "%s", d)
			}
		}
	})
}

func validPortable(c *Ctx) ([]byte, *ISet, *specInfo) {
	r := c.R
	o := GenOpts{MaxChunks: 5, HeavyP: 0.25}
	m, _ := genSet(r, o)
	if r.Chance(0.12) {
		// 1..150 small chunks (rarely 1000..1500 or a multiple of 1024)
		n := 1 + r.Intn(150)
		switch r.Intn(15) {
		case 0:
			n = 1000 + r.Intn(500)
		case 1:
			n = 1024 * (1 + r.Intn(2))
		}
		m = NewISet()
		base := r.Range(0, 65535-uint64(n))
		for k := uint64(0); k < uint64(n); k++ {
			lo := (base+k)<<16 | r.Range(0, 65000)
			m.AddRange(lo, lo+r.Range(0, 5))
		}
	}
	if m.IsEmpty() && r.Chance(0.8) {
		m.Add(r.Range(0, max32))
	}
	var wire []byte
	if r.Chance(0.5) {
		bm, es := buildForm(r, m, []string{"addmany", "opt", "range"}[r.Intn(3)])
		if es == "" {
			if w, err := bm.B.ToBytes(); err == nil {
				wire = w
			}
		}
	}
	if wire == nil {
		wire = specEncode(r, m, encChoice{ForceRunCookie: r.Chance(0.4), RunP: []float64{0, 0.3, 1}[r.Intn(3)]})
	}
	_, _, info, _ := specDecode(wire)
	return wire, m, info
}

func c10Prefixes(c *Ctx) {
	r := c.R
	wire, m, _ := validPortable(c)
	c.Step("valid portable stream of %d bytes for %v; all proper prefixes", len(wire), descSet(m))
	var cuts []int
	if len(wire) <= 4096 {
		for k := 0; k < len(wire); k++ {
			cuts = append(cuts, k)
		}
		c.Count("streams_with_all_prefixes_enumerated")
	} else {
		for k := 0; k < 24; k++ {
			cuts = append(cuts, k)
		}
		for i := 0; i < 120; i++ {
			cuts = append(cuts, r.Intn(len(wire)))
		}
		cuts = append(cuts, len(wire)-1, len(wire)-2, len(wire)-8)
	}
	for _, k := range cuts {
		if c.Failed() {
			return
		}
		_, done := feedAll(c, wire[:k], "prefix", true)
		done()
		c.Distinct(mix(sumBytes(wire), uint64(k)))
	}
	c.CountN("prefixes_fed", int64(len(cuts)))
	if !c.Failed() {
		c.Step("the complete valid stream through every decoder (fresh and previously used receivers)")
		feedValid(c, wire, m, false, "valid-portable")
	}
}

func put16(b []byte, off int, v int) {
	if off >= 0 && off+2 <= len(b) {
		binary.LittleEndian.PutUint16(b[off:], uint16(v))
	}
}
func get16(b []byte, off int) int {
	if off >= 0 && off+2 <= len(b) {
		return int(binary.LittleEndian.Uint16(b[off:]))
	}
	return 0
}

var edge16 = []int{0, 1, 2, 4094, 4095, 4096, 4097, 8191, 32767, 32768, 65534, 65535}

// corruptPortable applies one structure-aware corruption; returns the name of the mutation.
func corruptPortable(r *Rng, w []byte, info *specInfo) ([]byte, string) {
	b := append([]byte(nil), w...)
	n := info.N
	hdr := 8
	if info.Cookie == cookieRun {
		hdr = 4 + (n+7)/8
	}
	pickChunk := func(kind string) (specChunk, bool) {
		var cs []specChunk
		for _, ch := range info.Chunks {
			if kind == "" || ch.Kind == kind {
				cs = append(cs, ch)
			}
		}
		if len(cs) == 0 {
			return specChunk{}, false
		}
		return cs[r.Intn(len(cs))], true
	}
	for tries := 0; tries < 20; tries++ {
		switch r.Intn(23) {
		case 0:
			binary.LittleEndian.PutUint32(b, uint32(r.Uint64()))
			return b, "cookie-random"
		case 1:
			if info.Cookie == cookieRun {
				put16(b, 2, []int{0, n, n + 1, n - 2, 65535, 3, 4}[r.Intn(7)])
				return b, "cookie12347-size-field"
			}
			binary.LittleEndian.PutUint32(b[4:], []uint32{0, uint32(n + 1), uint32(n - 1), 65536, 65537, 1<<32 - 1, 1 << 31}[r.Intn(7)])
			return b, "cookie12346-size-field"
		case 2:
			if n >= 2 {
				i, j := r.Intn(n), r.Intn(n)
				ki, kj := get16(b, hdr+4*i), get16(b, hdr+4*j)
				put16(b, hdr+4*i, kj)
				put16(b, hdr+4*j, ki)
				return b, "keys-swapped"
			}
		case 3:
			if n >= 2 {
				i := 1 + r.Intn(n-1)
				put16(b, hdr+4*i, get16(b, hdr+4*(i-1)))
				return b, "keys-duplicate"
			}
		case 4:
			if n >= 1 {
				i := r.Intn(n)
				put16(b, hdr+4*i, edge16[r.Intn(len(edge16))])
				return b, "key-edge-value"
			}
		case 5:
			if n >= 1 {
				i := r.Intn(n)
				c0 := get16(b, hdr+4*i+2)
				put16(b, hdr+4*i+2, []int{c0 + 1, c0 - 1, 0, 65535, 4095, 4096, 4094}[r.Intn(7)])
				return b, "cardinality-field"
			}
		case 6:
			if info.HasOffsets && n >= 1 {
				i := r.Intn(n)
				binary.LittleEndian.PutUint32(b[hdr+4*n+4*i:], uint32(r.Uint64()))
				return b, "offset-garbage"
			}
		case 7:
			if ch, ok := pickChunk("array"); ok && ch.Card >= 2 {
				i, j := r.Intn(ch.Card), r.Intn(ch.Card)
				vi, vj := get16(b, ch.Off+2*i), get16(b, ch.Off+2*j)
				put16(b, ch.Off+2*i, vj)
				put16(b, ch.Off+2*j, vi)
				return b, "array-unsorted"
			}
		case 8:
			if ch, ok := pickChunk("array"); ok && ch.Card >= 2 {
				i := 1 + r.Intn(ch.Card-1)
				put16(b, ch.Off+2*i, get16(b, ch.Off+2*(i-1)))
				return b, "array-duplicate"
			}
		case 9:
			if ch, ok := pickChunk("bitmap"); ok {
				for k := 0; k < 1+r.Intn(3); k++ {
					b[ch.Off+r.Intn(8192)] ^= 1 << uint(r.Intn(8))
				}
				return b, "bitmap-popcount-mismatch"
			}
		case 10:
			if ch, ok := pickChunk("run"); ok {
				put16(b, ch.Off, []int{0, ch.NRuns + 1, ch.NRuns - 1, 65535, 2048, 2049}[r.Intn(6)])
				return b, "run-count"
			}
		case 11:
			if ch, ok := pickChunk("run"); ok && ch.NRuns >= 2 {
				i, j := r.Intn(ch.NRuns), r.Intn(ch.NRuns)
				for k := 0; k < 4; k++ {
					b[ch.Off+2+4*i+k], b[ch.Off+2+4*j+k] = b[ch.Off+2+4*j+k], b[ch.Off+2+4*i+k]
				}
				return b, "runs-unsorted"
			}
		case 12:
			if ch, ok := pickChunk("run"); ok && ch.NRuns >= 1 {
				i := r.Intn(ch.NRuns)
				st := get16(b, ch.Off+2+4*i)
				// make start+length exceed 65535
				put16(b, ch.Off+2+4*i+2, 65535-st+1+r.Intn(st+1))
				return b, "run-wraps-past-65535"
			}
		case 13:
			if ch, ok := pickChunk("run"); ok && ch.NRuns >= 2 {
				i := r.Intn(ch.NRuns - 1)
				nxt := get16(b, ch.Off+2+4*(i+1))
				st := get16(b, ch.Off+2+4*i)
				if r.Chance(0.5) {
					put16(b, ch.Off+2+4*i+2, nxt-st-1) // adjacent to the next run
					return b, "runs-adjacent"
				}
				put16(b, ch.Off+2+4*i+2, nxt-st+r.Intn(3)) // overlapping
				return b, "runs-overlapping"
			}
		case 22:
			if ch, ok := pickChunk("run"); ok && ch.NRuns >= 2 {
				i := r.Intn(ch.NRuns - 1)
				st := get16(b, ch.Off+2+4*i)
				put16(b, ch.Off+2+4*i+2, 65535-st) // longest non-wrapping run: swallows all later runs
				return b, "run-covers-all-later-runs"
			}
		case 14:
			if info.Cookie == cookieRun && n >= 1 {
				b[4+r.Intn((n+7)/8)] ^= 1 << uint(r.Intn(8))
				return b, "run-flag-toggled"
			}
		case 15:
			if len(b) > 1 {
				return b[:r.Intn(len(b))], "truncated"
			}
		case 16:
			ext := make([]byte, 1+r.Intn(16))
			for i := range ext {
				ext[i] = byte(r.Intn(256))
			}
			return append(b, ext...), "trailing-garbage"
		case 17, 18:
			for k := 0; k < 1+r.Intn(8); k++ {
				b[r.Intn(len(b))] ^= 1 << uint(r.Intn(8))
			}
			return b, "bit-flips"
		case 19:
			// header bytes only
			lim := minI(len(b), hdr+8*n+4)
			b[r.Intn(lim)] = byte(r.Intn(256))
			return b, "header-byte"
		case 20:
			if ch, ok := pickChunk("run"); ok && ch.NRuns >= 1 {
				// many tiny runs: more runs than efficient (rewrite lengths to 0)
				for i := 0; i < ch.NRuns; i++ {
					put16(b, ch.Off+2+4*i+2, 0)
				}
				return b, "runs-inefficient"
			}
		case 21:
			if n >= 1 {
				// descending keys
				for i := 0; i < n; i++ {
					put16(b, hdr+4*i, 60000-i)
				}
				return b, "keys-descending"
			}
		}
	}
	b[r.Intn(len(b))] ^= 0xFF
	return b, "byte-inverted"
}

func c10CorruptPortable(c *Ctx) {
	wire, m, info := validPortable(c)
	if info == nil {
		return
	}
	bad, how := corruptPortable(c.R, wire, info)
	c.Step("valid portable stream (%d bytes, %v) corrupted by %s -> %d bytes: %s", len(wire), descSet(m), how, len(bad), hexHead(bad))
	c.Count("mutation_" + how)
	c.Distinct(sumBytes(bad))
	outs, done := feedAll(c, bad, "portable/"+how, false)
	defer done()
	nheavy := 0
	for _, o := range outs {
		if o.b != nil && !c.Failed() {
			consistencyLevel(c, o, "portable/"+how, nheavy < 2)
			nheavy++
		}
	}
	c.Sample(map[string]any{"unit": "corrupt-portable", "case_seed": c.CaseSeed, "mutation": how, "bytes": len(bad), "head_hex": hexHead(bad)})
}

func hexHead(b []byte) string {
	n := minI(len(b), 48)
	s := fmt.Sprintf("%x", b[:n])
	if len(b) > n {
		s += "…"
	}
	return s
}

func corruptFrozen(r *Rng, w []byte, fi *frozenInfo) ([]byte, string) {
	b := append([]byte(nil), w...)
	n := fi.N
	L := len(b)
	typesOff := L - 4 - n
	countsOff := typesOff - 2*n
	keysOff := countsOff - 2*n
	for tries := 0; tries < 20; tries++ {
		switch r.Intn(18) {
		case 0:
			cnt := []int{0, n + 1, n - 1, 1, 65536, 65537, 1 << 16, 1<<17 - 1, r.Intn(1 << 17)}[r.Intn(9)]
			if cnt < 0 {
				cnt = 0
			}
			binary.LittleEndian.PutUint32(b[L-4:], uint32(frozenMagic|cnt<<15))
			return b, "header-count"
		case 1:
			binary.LittleEndian.PutUint32(b[L-4:], uint32(r.Uint64()))
			return b, "header-random"
		case 2:
			if n >= 1 {
				b[typesOff+r.Intn(n)] = []byte{0, 4, 255, 1, 2, 3}[r.Intn(6)]
				return b, "type-code"
			}
		case 3:
			if n >= 1 {
				i := r.Intn(n)
				c0 := get16(b, countsOff+2*i)
				put16(b, countsOff+2*i, []int{c0 + 1, c0 - 1, 0, 65535, 4095, 4096}[r.Intn(6)])
				return b, "count-field"
			}
		case 4:
			if n >= 2 {
				i, j := r.Intn(n), r.Intn(n)
				ki, kj := get16(b, keysOff+2*i), get16(b, keysOff+2*j)
				put16(b, keysOff+2*i, kj)
				put16(b, keysOff+2*j, ki)
				return b, "keys-swapped"
			}
		case 5:
			if n >= 2 {
				i := 1 + r.Intn(n-1)
				put16(b, keysOff+2*i, get16(b, keysOff+2*(i-1)))
				return b, "keys-duplicate"
			}
		case 6:
			if fi.NBitmap > 0 {
				for k := 0; k < 1+r.Intn(3); k++ {
					b[r.Intn(8192*fi.NBitmap)] ^= 1 << uint(r.Intn(8))
				}
				return b, "bitmap-popcount-mismatch"
			}
		case 7:
			// array arena: unsorted / duplicate
			arrStart := keysOff
			arrEls := 0
			runEls := 0
			for i, t := range fi.Types {
				if t == 2 {
					arrEls += int(fi.Counts[i]) + 1
				} else if t == 3 {
					runEls += int(fi.Counts[i])
				}
			}
			arrStart = keysOff - 2*arrEls
			if arrEls >= 2 {
				i := r.Intn(arrEls - 1)
				if r.Chance(0.5) {
					put16(b, arrStart+2*(i+1), get16(b, arrStart+2*i))
					return b, "array-duplicate"
				}
				vi, vj := get16(b, arrStart+2*i), get16(b, arrStart+2*(i+1))
				put16(b, arrStart+2*i, vj)
				put16(b, arrStart+2*(i+1), vi)
				return b, "array-unsorted"
			}
		case 8, 9, 10:
			runEls := 0
			for i, t := range fi.Types {
				if t == 3 {
					runEls += int(fi.Counts[i])
				}
			}
			runStart := 8192 * fi.NBitmap
			if runEls >= 1 {
				i := r.Intn(runEls)
				st := get16(b, runStart+4*i)
				switch r.Intn(5) {
				case 4:
					if i+1 < runEls {
						put16(b, runStart+4*i+2, 65535-st)
						return b, "run-covers-all-later-runs"
					}
				case 0:
					put16(b, runStart+4*i+2, 65535-st+1+r.Intn(st+1))
					return b, "run-wraps-past-65535"
				case 1:
					if i+1 < runEls {
						nxt := get16(b, runStart+4*(i+1))
						put16(b, runStart+4*i+2, nxt-st-1)
						return b, "runs-adjacent"
					}
				case 2:
					if i+1 < runEls {
						nxt := get16(b, runStart+4*(i+1))
						put16(b, runStart+4*i+2, nxt-st+r.Intn(3))
						return b, "runs-overlapping"
					}
				default:
					if i+1 < runEls {
						for k := 0; k < 4; k++ {
							b[runStart+4*i+k], b[runStart+4*(i+1)+k] = b[runStart+4*(i+1)+k], b[runStart+4*i+k]
						}
						return b, "runs-unsorted"
					}
				}
			}
		case 11:
			if L > 1 {
				return b[:r.Intn(L)], "truncated-tail"
			}
		case 12:
			if L > 5 {
				k := 1 + r.Intn(minI(64, L-4))
				return b[k:], "truncated-head"
			}
		case 13:
			ext := make([]byte, 1+r.Intn(16))
			return append(ext, b...), "leading-bytes"
		case 14:
			for k := 0; k < 1+r.Intn(8); k++ {
				b[r.Intn(L)] ^= 1 << uint(r.Intn(8))
			}
			return b, "bit-flips"
		case 15:
			// trailer bytes only
			lim := 4 + 5*n
			if lim > L {
				lim = L
			}
			b[L-1-r.Intn(lim)] = byte(r.Intn(256))
			return b, "trailer-byte"
		case 16:
			// bitmap chunk that holds <= 4096 values (count field consistent with the words)
			for i, t := range fi.Types {
				if t == 1 {
					// clear words of the first bitmap chunk until popcount <= 4096
					idx := 0
					for k := 0; k < i; k++ {
						if fi.Types[k] == 1 {
							idx++
						}
					}
					off := 8192 * idx
					target := []int{4096, 4095, 1, 100}[r.Intn(4)]
					pc := 0
					for w := 0; w < 1024; w++ {
						word := binary.LittleEndian.Uint64(b[off+8*w:])
						for bit := 0; bit < 64; bit++ {
							if word&(1<<uint(bit)) != 0 {
								if pc >= target {
									word &^= 1 << uint(bit)
								} else {
									pc++
								}
							}
						}
						binary.LittleEndian.PutUint64(b[off+8*w:], word)
					}
					put16(b, countsOff+2*i, pc-1)
					return b, fmt.Sprintf("bitmap-chunk-with-%s-values", map[bool]string{true: "4096", false: "fewer-than-4096"}[pc == 4096])
				}
			}
		case 17:
			// swap type codes of two chunks (arenas misplaced)
			if n >= 2 {
				i, j := r.Intn(n), r.Intn(n)
				b[typesOff+i], b[typesOff+j] = b[typesOff+j], b[typesOff+i]
				return b, "type-codes-swapped"
			}
		}
	}
	b[r.Intn(L)] ^= 0xFF
	return b, "byte-inverted"
}

func c10CorruptFrozen(c *Ctx) {
	r := c.R
	m, _ := genSet(r, GenOpts{MaxChunks: 5, HeavyP: 0.35})
	if m.IsEmpty() && r.Chance(0.6) {
		m.Add(r.Range(0, max32))
	}
	bm, es := buildForm(r, m, []string{"addmany", "opt", "range", "mixed"}[r.Intn(4)])
	if es != "" {
		return
	}
	fz, err := bm.B.Freeze()
	if err != nil {
		return
	}
	_, fi, ferr := frozenDecode(fz)
	if ferr != nil {
		c.Fail("harness/frozen-parser", "independent parser rejects Freeze output: %v", ferr)
		return
	}
	if r.Chance(0.3) {
		c.Step("the valid frozen image through every decoder (fresh and previously used receivers)")
		feedValid(c, fz, m, true, "valid-frozen")
		if c.Failed() {
			return
		}
	}
	bad, how := corruptFrozen(r, fz, fi)
	c.Step("valid frozen stream (%d bytes, %v) corrupted by %s -> %d bytes; tail %x", len(fz), descSet(m), how, len(bad), bad[maxI(0, len(bad)-24):])
	c.Count("mutation_" + how)
	c.Distinct(sumBytes(bad))
	outs, done := feedAll(c, bad, "frozen/"+how, false)
	defer done()
	nheavy := 0
	for _, o := range outs {
		if o.b != nil && !c.Failed() {
			consistencyLevel(c, o, "frozen/"+how, nheavy < 2)
			nheavy++
		}
	}
	// MustFrozenView: error or valid
	if !c.Failed() {
		dst := roaring.New()
		var merr error
		if pv, st := Try(func() { merr = dst.MustFrozenView(append([]byte(nil), bad...)) }); pv != nil {
			c.Fail("frozen/"+how+"/MustFrozenView/panic", "MustFrozenView panicked: %v\n%s", pv, st)
		} else if merr == nil {
			if err := dst.Validate(); err != nil {
				c.Fail("frozen/MustFrozenView/returns-invalid", "MustFrozenView returned nil for a bitmap that fails Validate: %v", err)
			}
		}
		c.Eval(1)
	}
	c.Sample(map[string]any{"unit": "corrupt-frozen", "case_seed": c.CaseSeed, "mutation": how, "bytes": len(bad)})
}

func maxI(a, b int) int {
	if a > b {
		return a
	}
	return b
}

func c10Random(c *Ctx) {
	r := c.R
	n := []int{0, 1, 3, 4, 5, 7, 8, 9, 12, 16, 31, 64, 200, 1000, 8200, 8300}[r.Intn(16)]
	data := make([]byte, n)
	for i := range data {
		data[i] = byte(r.Intn(256))
	}
	// plausible prefixes / trailers make the decoders go deeper
	switch r.Intn(5) {
	case 0:
		if n >= 8 {
			binary.LittleEndian.PutUint32(data, cookieNoRun)
			binary.LittleEndian.PutUint32(data[4:], uint32(r.Intn(6)))
		}
	case 1:
		if n >= 4 {
			binary.LittleEndian.PutUint32(data, uint32(cookieRun|r.Intn(6)<<16))
		}
	case 2:
		if n >= 4 {
			binary.LittleEndian.PutUint32(data[n-4:], uint32(frozenMagic|r.Intn(6)<<15))
		}
	}
	c.Step("random bytes n=%d: %s", n, hexHead(data))
	c.Distinct(sumBytes(data) ^ uint64(n))
	outs, done := feedAll(c, data, "random", false)
	defer done()
	nheavy := 0
	for _, o := range outs {
		if o.b != nil && !c.Failed() {
			consistencyLevel(c, o, "random", nheavy < 2)
			nheavy++
		}
	}
	// FromBase64 with non-base64 text
	if !c.Failed() {
		s := string(data)
		if pv, st := Try(func() { roaring.New().FromBase64(s) }); pv != nil {
			c.Fail("random/FromBase64/panic", "FromBase64 panicked on arbitrary text: %v\n%s", pv, st)
		}
	}
}

func c10Crashers(c *Ctx) {
	repo := os.Getenv("VERIF_REPO")
	if repo == "" {
		repo = "/repo"
	}
	files, _ := filepath.Glob(filepath.Join(repo, "testdata", "crash*.bin"))
	for _, f := range files {
		data, err := os.ReadFile(f)
		if err != nil {
			continue
		}
		c.Step("repository crasher %s (%d bytes)", filepath.Base(f), len(data))
		c.Distinct(sumBytes(data))
		outs, done := feedAll(c, data, "crasher/"+strings.TrimSuffix(filepath.Base(f), ".bin"), false)
		defer done()
		nheavy := 0
		for _, o := range outs {
			if o.b != nil && !c.Failed() {
				consistencyLevel(c, o, "crasher", nheavy < 2)
				nheavy++
			}
		}
		c.Count("repository_crashers_fed")
	}
}

// c10MustReadFrom: MustReadFrom returns ReadFrom's (n, err) and panics only for a validation failure.
func c10MustReadFrom(c *Ctx) {
	r := c.R
	wire, m, info := validPortable(c)
	if info == nil {
		return
	}
	data := wire
	how := "valid"
	switch r.Intn(4) {
	case 0:
	case 1:
		if len(wire) > 1 {
			data = wire[:r.Intn(len(wire))]
			how = "truncated"
		}
	default:
		data, how = corruptPortable(r, wire, info)
	}
	c.Step("MustReadFrom vs ReadFrom on a %s stream (%d bytes) of %v", how, len(data), descSet(m))
	c.Distinct(sumBytes(data))
	ref := roaring.New()
	var n1 int64
	var e1 error
	if pv, st := Try(func() { n1, e1 = ref.ReadFrom(bytes.NewReader(data)) }); pv != nil {
		c.Fail("MustReadFrom/ReadFrom-panics/"+how, "ReadFrom panicked: %v\n%s", pv, st)
		return
	}
	var verr error
	if e1 == nil {
		verr = ref.Validate()
	}
	dst := roaring.New()
	var n2 int64
	var e2 error
	pv, st := Try(func() { n2, e2 = dst.MustReadFrom(bytes.NewReader(data)) })
	c.Eval(1)
	c.Count("mustreadfrom_" + how)
	switch {
	case pv != nil:
		// allowed only to report a validation failure of a successfully decoded bitmap
		if e1 != nil {
			c.Fail("MustReadFrom/panics-on-read-error", "ReadFrom reports error %q but MustReadFrom panicked with %v\n%s", e1, pv, st)
		} else if verr == nil {
			c.Fail("MustReadFrom/panics-on-valid-input", "MustReadFrom panicked (%v) on a stream that ReadFrom accepts and Validate passes", pv)
		} else {
			c.Count("mustreadfrom_panic_for_validation_failure")
		}
	case e1 != nil:
		if e2 == nil {
			c.Fail("MustReadFrom/drops-error", "ReadFrom returned (%d,%v) but MustReadFrom returned (%d,nil)", n1, e1, n2)
		} else if n2 != n1 {
			c.Fail("MustReadFrom/byte-count", "ReadFrom returned n=%d, MustReadFrom n=%d (both with errors)", n1, n2)
		}
	default:
		if verr != nil {
			c.Fail("MustReadFrom/returns-invalid", "MustReadFrom returned normally for a bitmap that fails Validate (%v)", verr)
		} else if n2 != n1 || e2 != nil {
			c.Fail("MustReadFrom/return-values", "ReadFrom returned (%d,nil) but MustReadFrom returned (%d,%v)", n1, n2, e2)
		} else if d := checkEq(dst, apiSet(ref)); d != "" {
			c.Fail("MustReadFrom/content", "%s", d)
		}
	}
}

// c10PinnedKnown re-executes the concrete input of the known finding validated/bitmap-chunk-card-4096 on every
// run (a frozen stream whose single type-1 chunk holds exactly 4096 values), so that the finding is re-observed
// deterministically and a repair would be noticed (the KNOWN-FINDING line would say "not re-observed").
func c10PinnedKnown(c *Ctx) {
	fz := make([]byte, 8192+2+2+1+4)
	for w := 0; w < 64; w++ {
		binary.LittleEndian.PutUint64(fz[8*w:], ^uint64(0)) // values 0..4095
	}
	put16(fz, 8192, 7)      // key
	put16(fz, 8194, 4096-1) // cardinality-1
	fz[8196] = 1            // type code: bitmap
	binary.LittleEndian.PutUint32(fz[8197:], uint32(frozenMagic|1<<15))
	c.Step("pinned input: frozen stream with one bitmap chunk holding exactly 4096 values")
	c.Distinct(sumBytes(fz))
	outs, done := feedAll(c, fz, "pinned", false)
	defer done()
	for _, o := range outs {
		if o.b != nil && o.name == "FrozenView" {
			consistencyLevel(c, o, "pinned", true)
			return
		}
	}
}

// c10SynthFrozen builds frozen images from scratch out of header fields (type codes, count fields, keys) instead of
// damaging a valid image. The arena lengths follow one of several arithmetics for the same fields - the correct
// one, the sum with the "+1" taken in 16 bits (wraps at 0xFFFF), the bare count - so that images exist whose TOTAL
// LENGTH is consistent with one reading of the fields and not with another. Single-field corruptions of a valid
// image never produce those: they always leave a length surplus or deficit (seeded change C10-r4m1).
func c10SynthFrozen(c *Ctx) {
	r := c.R
	n := []int{0, 1, 1, 1, 2, 2, 3, 5}[r.Intn(8)]
	types := make([]byte, n)
	counts := make([]int, n)
	keys := make([]int, n)
	k := r.Intn(3)
	for i := 0; i < n; i++ {
		types[i] = []byte{1, 2, 2, 2, 3, 3, 0, 4}[r.Intn(8)]
		if r.Chance(0.7) {
			counts[i] = []int{0, 1, 2, 4095, 4096, 4097, 16383, 16384, 32767, 32768, 65534, 65535}[r.Intn(12)]
		} else {
			counts[i] = r.Intn(65536)
		}
		keys[i] = k
		k += 1 + r.Intn(3)
		if r.Chance(0.05) {
			k = r.Intn(65536)
		}
	}
	arith := r.Intn(4)
	arrEls, runEls, nbm := 0, 0, 0
	for i, t := range types {
		switch t {
		case 1:
			nbm++
		case 2:
			switch arith {
			case 0:
				arrEls += counts[i] + 1
			case 1:
				arrEls += int(uint16(counts[i] + 1))
			case 2:
				arrEls += counts[i]
			default:
				arrEls = int(uint16(arrEls + counts[i] + 1))
			}
		case 3:
			switch arith {
			case 0, 1:
				runEls += counts[i]
			case 2:
				runEls += counts[i] + 1
			default:
				runEls = int(uint16(runEls + counts[i]))
			}
		}
	}
	if nbm > 2 || arrEls+2*runEls > 1<<18 {
		return
	}
	var b []byte
	word := make([]byte, 8)
	for i := 0; i < nbm; i++ {
		fill := []byte{0, 0xFF, 0xAA}[r.Intn(3)]
		for w := 0; w < 1024; w++ {
			for j := range word {
				word[j] = fill
				if fill == 0xAA && r.Chance(0.1) {
					word[j] = byte(r.Intn(256))
				}
			}
			b = append(b, word...)
		}
	}
	// run arena: ascending (start,len-1) pairs; array arena: ascending values
	v := 0
	for i := 0; i < runEls; i++ {
		l := r.Intn(3)
		b = append(b, byte(v), byte(v>>8), byte(l), 0)
		v = (v + l + 2) & 0xFFFF
	}
	v = r.Intn(5)
	for i := 0; i < arrEls; i++ {
		b = append(b, byte(v), byte(v>>8))
		v = (v + 1 + r.Intn(2)) & 0xFFFF
	}
	for _, x := range keys {
		b = append(b, byte(x), byte(x>>8))
	}
	for _, x := range counts {
		b = append(b, byte(x), byte(x>>8))
	}
	b = append(b, types...)
	hdr := uint32(frozenMagic | n<<15)
	b = append(b, byte(hdr), byte(hdr>>8), byte(hdr>>16), byte(hdr>>24))
	how := fmt.Sprintf("synthesized/arena-arithmetic-%d", arith)
	c.Step("synthesized frozen image: types=%v counts=%v keys=%v arena arithmetic %d (0 exact, 1 '+1' in 16 bits, 2 bare count / count+1, 3 running sum in 16 bits) -> %d bytes", types, counts, keys, arith, len(b))
	c.Count("synth_frozen_arithmetic_" + fmt.Sprint(arith))
	c.Distinct(sumBytes(b))
	outs, done := feedAll(c, b, "frozen/"+how, false)
	defer done()
	nheavy := 0
	for _, o := range outs {
		if o.b != nil && !c.Failed() {
			if o.name == "FrozenView" {
				c.Count("synth_frozen_accepted")
			}
			consistencyLevel(c, o, "frozen/"+how, nheavy < 2)
			nheavy++
		}
	}
	c.Sample(map[string]any{"unit": "synthesized-frozen", "case_seed": c.CaseSeed, "types": fmt.Sprint(types), "counts": counts, "bytes": len(b)})
}
