package main

// Glue for roaring64: state extraction through the 64-bit hook view, generators,
// mutation steps, the 64-bit population machine.

import (
	"bytes"
	"fmt"

	"github.com/RoaringBitmap/roaring/v2"
	"github.com/RoaringBitmap/roaring/v2/roaring64"
)

type BM64 struct {
	B    *roaring64.Bitmap
	M    *ISet
	Form string
}

var buckets64 = []uint64{0, 1, 2, 0x7FFFFFFF, 0x80000000, 0xFFFFFFFE, 0xFFFFFFFF}

// viewSet64 decodes a 64-bit bitmap from its buckets' raw containers.
func viewSet64(b *roaring64.Bitmap) (*ISet, []string) {
	v := b.VerifView()
	var problems []string
	if v.NKeys != v.NContainers || v.NKeys != v.NFlags {
		problems = append(problems, fmt.Sprintf("parallel-slices-unequal keys=%d containers=%d flags=%d", v.NKeys, v.NContainers, v.NFlags))
	}
	var ivs []IV
	prev := int64(-1)
	for i, bk := range v.Buckets {
		if int64(bk.Key) <= prev {
			problems = append(problems, fmt.Sprintf("bucket-keys-not-increasing at %d key=%d prev=%d", i, bk.Key, prev))
		}
		prev = int64(bk.Key)
		if bk.Inner == nil {
			problems = append(problems, fmt.Sprintf("nil-bucket at %d", i))
			continue
		}
		s, p, _ := viewSet(bk.Inner)
		for _, x := range p {
			problems = append(problems, fmt.Sprintf("bucket %d: %s", bk.Key, x))
		}
		if s.IsEmpty() {
			problems = append(problems, fmt.Sprintf("empty-bucket key=%d", bk.Key))
		}
		base := uint64(bk.Key) << 32
		for _, iv := range s.iv {
			ivs = append(ivs, IV{base | iv.Lo, base | iv.Hi})
		}
	}
	return ivsToSet(ivs), problems
}

func checkEq64(b *roaring64.Bitmap, m *ISet) string {
	vs, _ := viewSet64(b)
	if !vs.Equal(m) {
		d, _ := vs.FirstDiff(m)
		return fmt.Sprintf("stored content differs from the model: first differing value %d (bucket %d, low %d): model has it=%v; stored=%s model=%s", d, d>>32, d&max32, m.Contains(d), vs, m)
	}
	if m.Card() <= 1<<16 {
		as := ISetFromValues(b.ToArray())
		if !as.Equal(m) {
			d, _ := as.FirstDiff(m)
			return fmt.Sprintf("ToArray differs from the model (stored content is right): first differing value %d", d)
		}
	}
	if gc := b.GetCardinality(); gc != m.Card() {
		return fmt.Sprintf("GetCardinality=%d but the model holds %d", gc, m.Card())
	}
	return ""
}

func storageHash64(b *roaring64.Bitmap) uint64 {
	v := b.VerifView()
	h := uint64(99)
	for _, bk := range v.Buckets {
		h = hstep(h, uint64(bk.Key))
		if bk.Inner != nil {
			h = hstep(h, storageHash(bk.Inner))
		}
	}
	return h
}

// edgeVal64 returns a boundary-biased value.
func edgeVal64(r *Rng, m *ISet) uint64 {
	switch r.Intn(10) {
	case 0:
		return []uint64{0, 1, max32, max32 + 1, max32 + 2, maxU64, maxU64 - 1, 1 << 63, 1<<63 - 1, 2 << 32}[r.Intn(10)]
	case 1, 2, 3, 4:
		if n := m.NumIntervals(); n > 0 {
			v := m.iv[r.Intn(n)]
			return []uint64{v.Lo, v.Hi, v.Lo - 1, v.Hi + 1, v.Lo + 1, v.Hi - 1, v.Lo + (v.Hi-v.Lo)/2}[r.Intn(7)]
		}
	case 5, 6:
		// bucket edges
		k := buckets64[r.Intn(len(buckets64))]
		return []uint64{k << 32, k<<32 | max32, k<<32 - 1, (k+1)<<32 | 0, k<<32 | 65535, k<<32 | 65536}[r.Intn(6)]
	}
	k := buckets64[r.Intn(len(buckets64))]
	if r.Chance(0.3) {
		k = r.Range(0, max32)
	}
	return k<<32 | edgeVal32(r, NewISet())
}

func genSet64(r *Rng, maxBuckets int) *ISet {
	if r.Chance(0.12) {
		// many buckets, each holding one tiny range or a couple of values (smallest possible encodings)
		nb := 3 + r.Intn(40)
		s := NewISet()
		base := []uint64{0, 1, 0x7FFFFFF0, 0xFFFFFF00, r.Range(0, max32-64)}[r.Intn(5)]
		runFriendly := r.Chance(0.5) // every bucket is one short run (the smallest run-encoded bucket)
		for k := uint64(0); k < uint64(nb); k++ {
			if base+k > max32 {
				break
			}
			lo := (base+k)<<32 | edgeVal32(r, NewISet())
			hi := lo + []uint64{0, 0, 1, 2, 9}[r.Intn(5)]
			if runFriendly {
				hi = lo + r.Range(3, 30)
			}
			if hi>>32 != lo>>32 {
				hi = lo
			}
			s.AddRange(lo, hi)
		}
		return s
	}
	n := 0
	switch x := r.Intn(10); {
	case x == 0:
		n = 0
	case x < 5:
		n = 1
	default:
		n = 1 + r.Intn(maxBuckets)
	}
	var ivs []IV
	used := map[uint64]bool{}
	var ks []uint64
	for len(ks) < n {
		k := buckets64[r.Intn(len(buckets64))]
		if r.Chance(0.15) {
			k = r.Range(0, max32)
		}
		if !used[k] {
			used[k] = true
			ks = append(ks, k)
		}
	}
	sortU64(ks)
	for _, k := range ks {
		inner, _ := genSet(r, GenOpts{MaxChunks: 3, HeavyP: 0.25, Keys: []uint64{0, 1, 0x7FFF, 0xFFFE, 0xFFFF}})
		if inner.IsEmpty() {
			inner.Add(edgeVal32(r, inner))
		}
		for _, v := range inner.iv {
			ivs = append(ivs, IV{k<<32 | v.Lo, k<<32 | v.Hi})
		}
	}
	return ivsToSet(ivs)
}

var forms64 = []string{"add", "addmany", "range", "opt", "cowclone", "stream", "unsafe"}

func build64(r *Rng, m *ISet, form string) (*BM64, string) {
	b := roaring64.New()
	// a range ending at 2^64-1 cannot be expressed as [s,e): add the last value separately
	addRange := func(dst *roaring64.Bitmap, lo, hi uint64) {
		if hi == maxU64 {
			dst.Add(maxU64)
			if lo == maxU64 {
				return
			}
			hi--
		}
		dst.AddRange(lo, hi+1)
	}
	addMany := func(dst *roaring64.Bitmap) {
		var buf []uint64
		for _, v := range m.iv {
			if v.Hi-v.Lo > 100000 {
				addRange(dst, v.Lo, v.Hi)
				continue
			}
			for x := v.Lo; ; x++ {
				buf = append(buf, x)
				if x == v.Hi {
					break
				}
			}
		}
		dst.AddMany(buf)
	}
	keep := []any{}
	switch form {
	case "add":
		for _, v := range m.iv {
			if v.Hi-v.Lo > 20000 {
				addRange(b, v.Lo, v.Hi)
				continue
			}
			for x := v.Lo; ; x++ {
				b.Add(x)
				if x == v.Hi {
					break
				}
			}
		}
	case "addmany":
		if m.Card() <= 64 && r.Chance(0.5) {
			b = roaring64.BitmapOf(m.Values()...)
		} else {
			addMany(b)
		}
	case "range":
		for _, v := range m.iv {
			addRange(b, v.Lo, v.Hi)
		}
	case "opt":
		addMany(b)
		b.RunOptimize()
	case "cowclone":
		src := roaring64.New()
		addMany(src)
		src.SetCopyOnWrite(true)
		b = src.Clone()
		keep = append(keep, src)
	case "stream", "unsafe":
		src := roaring64.New()
		addMany(src)
		if r.Chance(0.5) {
			src.RunOptimize()
		}
		buf, err := src.ToBytes()
		if err != nil {
			return nil, "ToBytes failed: " + err.Error()
		}
		if form == "stream" {
			if _, err := b.ReadFrom(bytes.NewReader(buf)); err != nil {
				return nil, "ReadFrom of ToBytes output failed: " + err.Error()
			}
		} else {
			if _, err := b.FromUnsafeBytes(buf); err != nil {
				return nil, "FromUnsafeBytes of ToBytes output failed: " + err.Error()
			}
			keep = append(keep, buf)
		}
	}
	bm := &BM64{B: b, M: m.Clone(), Form: form}
	keepAlive64 = append(keepAlive64, keep...)
	if len(keepAlive64) > 4000 {
		keepAlive64 = keepAlive64[2000:]
	}
	if d := checkEq64(b, m); d != "" {
		return nil, "construction in form " + form + ": " + d
	}
	return bm, ""
}

// buffers of zero-copy 64-bit bitmaps are kept reachable for a while (caller obligation)
var keepAlive64 []any

func genBM64(c *Ctx) *BM64 {
	m := genSet64(c.R, 3)
	f := forms64[c.R.Intn(len(forms64))]
	bm, es := build64(c.R, m, f)
	if es != "" {
		c.Fail("build64/"+f, "%s", es)
		bm, es = build64(c.R, m, "addmany")
		if es != "" {
			return &BM64{B: roaring64.New(), M: NewISet()}
		}
	}
	return bm
}

// genRange64 returns [s,e) with s<e<=2^64-1.
func genRange64(r *Rng, m *ISet, allowFullBuckets bool, removal ...bool) (uint64, uint64) {
	s := edgeVal64(r, m)
	var e uint64
	switch x := r.Intn(10); {
	case x < 4:
		e = s + 1 + r.Range(0, 70000)
	case x < 6: // ends exactly at a bucket edge
		e = (s | max32) + 1
		if e-s > 200000 && !allowFullBuckets {
			s = e - 1 - r.Range(0, 200000)
		}
	case x < 8: // crosses a bucket edge
		edge := (s | max32) + 1
		if edge != 0 {
			s = edge - 1 - r.Range(0, 70000)
			e = edge + r.Range(0, 70000)
		}
	case x == 8 && allowFullBuckets: // spans whole buckets
		e = s + r.Range(1<<32, 3<<32)
	default:
		e = s + 1 + r.Range(0, 300)
	}
	if allowFullBuckets && r.Chance(0.15) && m.NumIntervals() > 0 {
		// [s, (b2+1)<<32) where bucket b2 holds elements and s lies in (or before) an earlier bucket
		i1, i2 := r.Intn(m.NumIntervals()), r.Intn(m.NumIntervals())
		if i1 > i2 {
			i1, i2 = i2, i1
		}
		b1, b2 := m.iv[i1].Lo>>32, m.iv[i2].Hi>>32
		if b2 < max32 && (len(removal) > 0 || b2-b1 <= 2) {
			e = (b2 + 1) << 32
			s = []uint64{m.iv[i1].Lo, m.iv[i1].Lo &^ max32, m.iv[i1].Lo + 1, b1<<32 | r.Range(0, max32)}[r.Intn(4)]
			if s >= e {
				s = e - 1
			}
		}
	}
	if e <= s { // overflow or empty
		if s == maxU64 {
			s = maxU64 - 1 - r.Range(0, 1000)
		}
		e = maxU64
	}
	return s, e
}

var mut64Ops = []string{"Add", "CheckedAdd", "AddInt", "AddMany", "Remove", "CheckedRemove", "AddRange", "RemoveRange", "Flip", "Clear", "RunOptimize", "SetCOW", "CloneCOW"}
var mut64W = []int{10, 8, 2, 6, 8, 8, 8, 8, 7, 1, 3, 2, 1}

func mutateStep64(c *Ctx, bm *BM64, full bool) string {
	r := c.R
	tot := 0
	for _, w := range mut64W {
		tot += w
	}
	x := r.Intn(tot)
	op := "Add"
	for i, w := range mut64W {
		if x < w {
			op = mut64Ops[i]
			break
		}
		x -= w
	}
	b, m := bm.B, bm.M
	sig := "64/" + op
	switch op {
	case "Add":
		v := edgeVal64(r, m)
		c.Step("Add(%d)", v)
		c.Guard(sig, func() { b.Add(v) })
		m.Add(v)
	case "AddInt":
		v := edgeVal64(r, m) & (1<<63 - 1)
		c.Step("AddInt(%d)", v)
		c.Guard(sig, func() { b.AddInt(int(v)) })
		m.Add(v)
	case "CheckedAdd":
		v := edgeVal64(r, m)
		c.Step("CheckedAdd(%d)", v)
		want := !m.Contains(v)
		c.Guard(sig, func() {
			if got := b.CheckedAdd(v); got != want {
				c.Fail(sig+"/return", "CheckedAdd(%d)=%v, membership changed=%v", v, got, want)
			}
		})
		m.Add(v)
	case "Remove":
		v := edgeVal64(r, m)
		c.Step("Remove(%d)", v)
		c.Guard(sig, func() { b.Remove(v) })
		m.Remove(v)
	case "CheckedRemove":
		v := edgeVal64(r, m)
		c.Step("CheckedRemove(%d)", v)
		want := m.Contains(v)
		c.Guard(sig, func() {
			if got := b.CheckedRemove(v); got != want {
				c.Fail(sig+"/return", "CheckedRemove(%d)=%v, membership changed=%v", v, got, want)
			}
		})
		m.Remove(v)
	case "AddMany":
		n := []int{0, 1, 3, 40, 400}[r.Intn(5)]
		vals := make([]uint64, n)
		for i := range vals {
			vals[i] = edgeVal64(r, m)
		}
		if n <= 40 {
			c.Step("AddMany(%v)", vals)
		} else {
			c.Step("AddMany(n=%d first=%v)", n, vals[:6])
		}
		c.Guard(sig, func() { b.AddMany(vals) })
		for _, v := range vals {
			m.Add(v)
		}
	case "AddRange":
		s, e := genRange64(r, m, full)
		empty := emptyRange(r, &s, &e)
		c.Step("AddRange(%d,%d)", s, e)
		c.Guard(sig, func() { b.AddRange(s, e) })
		if !empty {
			m.AddRange(s, e-1)
		}
	case "RemoveRange":
		s, e := genRange64(r, m, true, true)
		empty := emptyRange(r, &s, &e)
		c.Step("RemoveRange(%d,%d)", s, e)
		c.Guard(sig, func() { b.RemoveRange(s, e) })
		if !empty {
			m.RemoveRange(s, e-1)
		}
	case "Flip":
		s, e := genRange64(r, m, full)
		empty := emptyRange(r, &s, &e)
		c.Step("Flip(%d,%d)", s, e)
		c.Guard(sig, func() {
			if e <= 1<<62 && s <= 1<<62 && r.Chance(0.3) {
				b.FlipInt(int(s), int(e))
			} else {
				b.Flip(s, e)
			}
		})
		if !empty {
			m.FlipRange(s, e-1)
		}
	case "Clear":
		c.Step("Clear()")
		c.Guard(sig, func() { b.Clear() })
		m.Clear()
	case "RunOptimize":
		c.Step("RunOptimize()")
		c.Guard(sig, func() { b.RunOptimize() })
	case "SetCOW":
		v := r.Chance(0.6)
		c.Step("SetCopyOnWrite(%v)", v)
		c.Guard(sig, func() { b.SetCopyOnWrite(v) })
	case "CloneCOW":
		c.Step("CloneCopyOnWriteContainers()")
		c.Guard(sig, func() { b.CloneCopyOnWriteContainers() })
	}
	c.Count("op64_" + op)
	return op
}

func staticOp64(op string, a, b *roaring64.Bitmap) *roaring64.Bitmap {
	switch op {
	case "And":
		return roaring64.And(a, b)
	case "Or":
		return roaring64.Or(a, b)
	case "Xor":
		return roaring64.Xor(a, b)
	}
	return roaring64.AndNot(a, b)
}

func inplaceOp64(op string, a, b *roaring64.Bitmap) {
	switch op {
	case "And":
		a.And(b)
	case "Or":
		a.Or(b)
	case "Xor":
		a.Xor(b)
	default:
		a.AndNot(b)
	}
}

// ---------------------------------------------------------------- 64-bit population machine (C07)

func pop64Run(c *Ctx) {
	r := c.R
	var live []*BM64
	var names []int
	next := 0
	add := func(bm *BM64) {
		live = append(live, bm)
		names = append(names, next)
		next++
	}
	name := func(i int) string { return fmt.Sprintf("q%d", names[i]) }
	add(genBM64(c))
	c.Step("q0 = fresh %s %v", live[0].Form, descSet(live[0].M))
	if r.Chance(0.4) {
		c.Step("q0.SetCopyOnWrite(true)")
		live[0].B.SetCopyOnWrite(true)
	}
	h := uint64(0)
	pendingProbe := -1
	pendingOther := -1
	var pendingKey uint32
	pendingChunk := uint64(0)
	pendingBy := ""
	steps := 30 + r.Intn(40)
	for st := 0; st < steps && !c.Failed(); st++ {
		op := ""
		if pendingProbe >= 0 && pendingProbe < len(live) {
			X := live[pendingProbe]
			lo := uint64(pendingKey)<<32 | pendingChunk<<16
			if v, ok := X.M.Next(lo); ok && v <= uint64(pendingKey)<<32|max32 {
				op = "alias-probe(created-by-" + pendingBy + ")"
				c.Step("alias probe: %s.Remove(%d) (bucket %d also reachable from %s, not flagged shared on both sides; created by %s)", name(pendingProbe), v, pendingKey, name(pendingOther), pendingBy)
				c.Guard("64/alias-probe", func() { X.B.Remove(v) })
				X.M.Remove(v)
				c.Count("alias_probes_64")
			}
			pendingProbe = -1
		}
		if op == "" {
			create := len(live) < 2 || (len(live) < 6 && r.Chance(0.45))
			if create {
				op = []string{"Fresh", "Clone", "And", "Or", "Xor", "AndNot", "Flip", "FastOr", "FastAnd", "ParOr", "Derive", "Derive"}[r.Intn(12)]
				var res *roaring64.Bitmap
				var want *ISet
				sig := "64/create/" + op
				switch op {
				case "Fresh":
					bm := genBM64(c)
					c.Step("q%d = fresh %s %v", next, bm.Form, descSet(bm.M))
					if r.Chance(0.35) {
						c.Step("q%d.SetCopyOnWrite(true)", next)
						bm.B.SetCopyOnWrite(true)
					}
					add(bm)
				case "Derive":
					// a relative of an existing bitmap: a clone that loses some WHOLE buckets and gains values in other
					// buckets (between, below and above the old ones), so that later operations between the two meet
					// equal buckets, buckets present on one side only and interleaved bucket keys
					a := r.Intn(len(live))
					want = live[a].M.Clone()
					var drop, gain []uint64
					seenB := map[uint64]bool{}
					for _, v := range live[a].M.Intervals() {
						for k := v.Lo >> 32; k <= v.Hi>>32 && len(seenB) < 64; k++ {
							if !seenB[k] {
								seenB[k] = true
								if r.Chance(0.4) {
									drop = append(drop, k)
								}
								if r.Chance(0.4) && k+1 <= max32 {
									gain = append(gain, k+1)
								}
								if r.Chance(0.2) && k > 0 {
									gain = append(gain, k-1)
								}
							}
						}
					}
					if r.Chance(0.5) {
						gain = append(gain, edgeVal64(r, want)>>32)
					}
					c.Step("q%d = Clone(%s) minus whole buckets %v plus values in buckets %v", next, name(a), drop, gain)
					c.Guard(sig, func() {
						res = live[a].B.Clone()
						if live[a].B.GetCopyOnWrite() && r.Chance(0.5) {
							res.SetCopyOnWrite(true)
						}
						for _, k := range drop {
							if k == max32 {
								res.RemoveRange(k<<32, maxU64)
								res.Remove(maxU64)
							} else {
								res.RemoveRange(k<<32, (k+1)<<32)
							}
							want.RemoveRange(k<<32, k<<32|max32)
						}
						for _, k := range gain {
							for j := 0; j < 1+r.Intn(3); j++ {
								v := k<<32 | r.Range(0, 200000)
								res.Add(v)
								want.Add(v)
							}
						}
					})
				case "Clone":
					a := r.Intn(len(live))
					c.Step("q%d = Clone(%s)", next, name(a))
					c.Guard(sig, func() { res = live[a].B.Clone() })
					want = live[a].M.Clone()
				case "And", "Or", "Xor", "AndNot":
					a, b := r.Intn(len(live)), r.Intn(len(live))
					c.Step("q%d = %s(%s,%s)", next, op, name(a), name(b))
					c.Guard(sig, func() { res = staticOp64(op, live[a].B, live[b].B) })
					want = modelOp(op, live[a].M, live[b].M)
				case "Flip":
					a := r.Intn(len(live))
					s, e := genRange64(r, live[a].M, false)
					c.Step("q%d = Flip(%s,%d,%d)", next, name(a), s, e)
					c.Guard(sig, func() { res = roaring64.Flip(live[a].B, s, e) })
					want = live[a].M.Clone()
					want.FlipRange(s, e-1)
				default:
					n := r.Intn(5)
					ix := make([]int, n)
					list := make([]*roaring64.Bitmap, n)
					nm := "["
					for k := range ix {
						ix[k] = r.Intn(len(live))
						list[k] = live[ix[k]].B
						nm += name(ix[k]) + " "
					}
					if r.Chance(0.2) {
						list = append(list, roaring64.New())
						ix = append(ix, -1)
						nm += "empty"
					}
					nm += "]"
					before := append([]*roaring64.Bitmap(nil), list...)
					w := []int{0, 1, 2, 4}[r.Intn(4)]
					c.Step("q%d = %s(%s) workers=%d", next, op, nm, w)
					c.Guard(sig, func() {
						switch op {
						case "FastOr":
							res = roaring64.FastOr(list...)
						case "FastAnd":
							res = roaring64.FastAnd(list...)
						default:
							res = roaring64.ParOr(w, list...)
						}
					})
					for k := range before {
						if list[k] != before[k] {
							c.Fail(sig+"/argument-slice-changed", "%s modified the caller's argument slice at index %d", op, k)
							break
						}
					}
					want = NewISet()
					for k, i := range ix {
						mm := NewISet()
						if i >= 0 {
							mm = live[i].M
						}
						if op == "FastAnd" {
							if k == 0 {
								want = mm.Clone()
							} else {
								want = want.And(mm)
							}
						} else {
							want = want.Or(mm)
						}
					}
				}
				if res != nil && !c.Failed() {
					for i, bm := range live {
						if bm.B == res {
							v, ok := want.NextAbsent(5, maxU64)
							if ok {
								c.Step("identity probe: result of %s is the same object as %s; Add(%d)", op, name(i), v)
								res.Add(v)
								if bm.B.Contains(v) {
									c.Fail(sig+"/returns-input-object", "%s returned its input %s itself: adding %d to the result changed the input", op, name(i), v)
								}
								want.Add(v)
							}
						}
					}
					add(&BM64{B: res, M: want, Form: op})
				}
				c.Count("create64_" + op)
			} else {
				x := r.Intn(len(live))
				X := live[x]
				switch k := r.Intn(10); {
				case k < 5:
					c.Step("on %s:", name(x))
					op = mutateStep64(c, X, false)
				case k < 9:
					a := r.Intn(len(live))
					bop := binOps[r.Intn(4)]
					op = "I" + bop
					c.Step("%s.%s(%s)", name(x), bop, name(a))
					want := modelOp(bop, X.M, live[a].M)
					c.Guard("64/mutate/"+op, func() { inplaceOp64(bop, X.B, live[a].B) })
					X.M = want
				default:
					op = "Drop"
					if len(live) > 2 {
						c.Step("drop %s", name(x))
						live = append(live[:x], live[x+1:]...)
						names = append(names[:x], names[x+1:]...)
					}
				}
			}
		}
		if c.Failed() {
			break
		}
		h = mix(h, hashStr(c.hist[len(c.hist)-1]))
		for i, bm := range live {
			c.Eval(1)
			if d := checkEq64(bm.B, bm.M); d != "" {
				c.Fail("64/interference/after-"+op, "after step %q bitmap %s no longer equals its model: %s", c.hist[len(c.hist)-1], name(i), d)
				break
			}
		}
		// bucket-level alias monitor
		type ref struct {
			owner  int
			shared bool
			key    uint32
		}
		seen := map[uintptr]ref{}
		for i, bm := range live {
			for _, bk := range bm.B.VerifView().Buckets {
				if p, ok := seen[bk.Obj]; ok && p.owner != i {
					if !(p.shared && bk.Shared) && pendingProbe < 0 {
						c.Count("alias_suspects_64")
						pendingProbe, pendingOther = i, p.owner
						if bk.Shared && !p.shared {
							pendingProbe, pendingOther = p.owner, i
						}
						pendingKey = bk.Key
						pendingChunk = 0
						pendingBy = op
					}
				} else if !ok {
					seen[bk.Obj] = ref{i, bk.Shared, bk.Key}
				}
			}
		}
		// container-level monitor across the inner 32-bit bitmaps of different owners
		type cref struct {
			owner  int
			inner  uintptr
			shared bool
			key    uint32
		}
		cseen := map[uintptr]cref{}
		for i, bm := range live {
			for _, bk := range bm.B.VerifView().Buckets {
				if bk.Inner == nil {
					continue
				}
				for _, sl := range bk.Inner.VerifView().Slots {
					if p, ok := cseen[sl.Obj]; ok && p.owner != i && p.inner != bk.Obj {
						if !(p.shared && sl.Shared) && pendingProbe < 0 {
							c.Count("alias_suspects_64_inner")
							pendingProbe, pendingOther = i, p.owner
							if sl.Shared && !p.shared {
								pendingProbe, pendingOther = p.owner, i
							}
							pendingKey = bk.Key
							pendingChunk = uint64(sl.Key)
							pendingBy = op
						}
					} else if !ok {
						cseen[sl.Obj] = cref{i, bk.Obj, sl.Shared, bk.Key}
					}
				}
			}
		}
	}
	c.Distinct(h)
	c.Sample(map[string]any{"unit": "population64", "case_seed": c.CaseSeed, "steps": firstN(c.hist, 12)})
	_ = roaring.New
}
