package main

import (
	"fmt"
	"syscall"

	"github.com/RoaringBitmap/roaring/v2"
)

func init() {
	register(&Property{
		ID: "C08", Level: "exploration", Builds: []string{"plain"},
		Rule:        "cases = serialized inputs (portable and frozen; all chunk archetypes) placed in PROT_READ guard memory between PROT_NONE pages; zero-copy bitmaps Z = FromBuffer / FromUnsafeBytes / FrozenView of them join a population machine together with owned bitmaps: derived bitmaps via Clone, static algebra with Z on either side, in-place algebra with Z as receiver and as argument, aggregates containing Z, AddOffset, Flip; then mutation histories (all in-place paths, key insertions/removals that shift the key array) on Z and on every derived bitmap, every live bitmap compared with its model after every step. A write to the caller's buffer faults at the exact instruction (recovered and attributed) and is double-checked by a checksum. Detach phase 1: one bitmap X gets CloneCopyOnWriteContainers, then 15 steps on X alone run with the buffers switched to PROT_NONE (any access by X faults). Detach phase 2: all live bitmaps are detached, the buffers stay PROT_NONE and the population machine continues. Non-trivial: >= 1 zero-copy bitmap with >= 1 chunk; distinct = hash of the step list.",
		Assumptions: []string{"SetCopyOnWrite is not called on zero-copy bitmaps (documented misuse)", "the harness keeps the buffers mapped and unmodified while any non-detached bitmap is live (documented caller obligation)"},
		Units: []Unit{
			{Name: "zero-copy-population", Quick: 1500, Thorough: 80000, Run: c08Pop},
		},
	})
}

func c08Pop(c *Ctx) {
	r := c.R
	p := newPop(c, PopMode{Interference: true, MaxLive: 6})
	var regs []*GuardRegion
	defer func() {
		for _, g := range regs {
			g.Protect(syscall.PROT_READ)
			g.Free()
		}
	}()
	nz := 1 + r.Intn(2)
	for i := 0; i < nz; i++ {
		keys := []uint64{0, 1, 2, 3, 0xFFFE, 0xFFFF}
		srcForms := []string{"addmany", "opt", "range", "mixed"}
		if r.Chance(0.3) {
			// low keys only, so that the source can also come from a dense word slice (FromDense keeps full chunks
			// as bitmap chunks, a kind/cardinality pairing the mutation API never leaves behind)
			keys = []uint64{0, 1, 2, 3, 5}
			srcForms = []string{"dense", "dense", "addmany", "opt"}
		}
		m, archs := genSet(r, GenOpts{MaxChunks: 5, HeavyP: 0.4, Keys: keys})
		src, es := buildForm(r, m, srcForms[r.Intn(len(srcForms))])
		if es != "" {
			c.Fail("build", "%s", es)
			return
		}
		entry := []string{"FromBuffer", "FromUnsafeBytes", "FrozenView"}[r.Intn(3)]
		var wire []byte
		var err error
		if entry == "FrozenView" {
			wire, err = src.B.Freeze()
		} else {
			wire, err = src.B.ToBytes()
		}
		if err != nil {
			c.Fail("serialize", "%v", err)
			return
		}
		endFlush := r.Chance(0.5) && (entry != "FrozenView" || len(wire)%8 == 0)
		reg, gerr := NewGuard(wire, endFlush)
		if gerr != nil {
			c.Note("mmap failed: " + gerr.Error())
			return
		}
		regs = append(regs, reg)
		z := roaring.New()
		if r.Chance(0.4) {
			// the receiver of a zero-copy load may have been used before (larger, smaller, copy-on-write, grown by
			// appends, cleared, itself zero-copy): its old tables and flags must not leak into the new contents
			var how string
			z, how = reusedReceiver(c)
			c.Step("receiver %s", how)
			c.Count("receiver_" + how)
		}
		if c.Guard(entry, func() {
			switch entry {
			case "FromBuffer":
				_, err = z.FromBuffer(reg.Payload)
			case "FromUnsafeBytes":
				_, err = z.FromUnsafeBytes(reg.Payload)
			default:
				err = z.FrozenView(reg.Payload)
			}
		}) {
			return
		}
		if err != nil {
			c.Fail(entry+"/error", "%s rejected the library's own bytes: %v", entry, err)
			return
		}
		k := p.add(&BM{B: z, M: m.Clone(), Form: entry, ZC: true, Reg: reg})
		c.Step("%s = %s over read-only guard memory (%d bytes, end-flush=%v) archetypes=%v set=%v", p.name(k), entry, len(wire), endFlush, archs, descSet(m))
		c.Count("zero_copy_" + entry)
	}
	// one owned bitmap to combine with
	k := p.add(p.genFresh())
	c.Step("%s = fresh %s %v", p.name(k), p.live[k].Form, descSet(p.live[k].M))
	p.lastOp = "init"
	intact := func(when string) bool {
		for i, g := range regs {
			if !g.Intact() {
				c.Fail("caller-buffer-modified/"+when, "the checksum of caller buffer #%d changed (%s)", i, when)
				return false
			}
		}
		c.Eval(1)
		return true
	}
	if !p.after() {
		return
	}
	steps := 30 + r.Intn(40)
	for i := 0; i < steps; i++ {
		if !p.Step() {
			return
		}
		if !intact("after-" + p.lastOp) {
			return
		}
	}
	// ---- detach phase 1: one bitmap
	if len(p.live) == 0 {
		return
	}
	x := p.pick()
	X := p.live[x]
	c.Step("detach: %s.CloneCopyOnWriteContainers(); the buffers become inaccessible (PROT_NONE) while only %s is used", p.name(x), p.name(x))
	if c.Guard("detach/CloneCopyOnWriteContainers", func() { X.B.CloneCopyOnWriteContainers() }) {
		return
	}
	for _, g := range regs {
		g.Protect(syscall.PROT_NONE)
	}
	func() {
		for i := 0; i < 15 && !c.Failed(); i++ {
			op := mutateStep(c, X, MutOpts{Light: true, NoClone: true, Sig: "detached/"})
			if c.Failed() {
				return
			}
			var d string
			if c.Guard("detached/read-after-"+op, func() { d = checkEq(X.B, X.M) }) {
				return
			}
			if d != "" {
				c.Fail("detached/content/after-"+op, "after detaching and %s: %s", op, d)
				return
			}
			c.Eval(1)
		}
		if !c.Failed() {
			c.Guard("detached/queries", func() { queryBattery(c, X, 4) })
		}
	}()
	for _, g := range regs {
		g.Protect(syscall.PROT_READ)
	}
	c.Count("detached_single")
	if c.Failed() || !intact("after-detach-1") {
		return
	}
	p.lastOp = "detach-one"
	if !p.after() { // everybody else still fine
		return
	}
	// ---- detach phase 2: everybody, then continue the machine with inaccessible buffers
	c.Step("detach all %d live bitmaps; buffers stay inaccessible from now on", len(p.live))
	for i, bm := range p.live {
		if c.Guard("detach/CloneCopyOnWriteContainers", func() { bm.B.CloneCopyOnWriteContainers() }) {
			return
		}
		bm.ZC = false
		_ = i
	}
	for _, g := range regs {
		g.Protect(syscall.PROT_NONE)
	}
	for i := 0; i < 25; i++ {
		if !p.Step() {
			break
		}
	}
	c.Count("detached_all")
	c.Distinct(p.h)
	c.Sample(map[string]any{"unit": "zero-copy-population", "case_seed": c.CaseSeed, "steps": firstN(c.hist, 12), "total_steps": fmt.Sprint(len(c.hist))})
}
