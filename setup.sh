#!/bin/bash
# Run once after a fresh restore, offline: checks the toolchain, warms the build cache for the three
# harness variants and validates the reference models.
set -u
cd "$(dirname "$0")" || exit 1
. ./env.sh
echo "go: $($GO version)"
mkdir -p "$VERIF_DIR/.work" "$VERIF_DIR/evidence"
W=$(mktemp -d "$VERIF_DIR/.work/setup.XXXXXX") || exit 1
trap 'rm -rf "$W"' EXIT
sed "s#=> /repo#=> $VERIF_REPO#" harness/go.mod > "$W/go.mod"; cp harness/go.sum "$W/go.sum"
(cd harness && $GO build -modfile="$W/go.mod" -tags verif -o "$W/vc-plain" .) || exit 1
(cd harness && $GO build -modfile="$W/go.mod" -tags verif -race -gcflags=all=-d=checkptr=0 -o "$W/vc-race" .) || exit 1
(cd harness && $GO build -modfile="$W/go.mod" -tags verif -gcflags=all=-d=checkptr -o "$W/vc-checkptr" .) || exit 1
"$W/vc-plain" selfcheck || exit 1
echo "setup ok"
