#!/bin/bash
# usage: fixcommit.sh "<commit message starting with fix:>"  -- verifies gofmt + baseline (hooks off), then commits in /repo
set -e
export GOFLAGS=-mod=mod GOPROXY=off
cd /repo
[ -z "$(gofmt -l $(git diff --name-only | grep '\.go$'))" ] || { echo "gofmt needed"; exit 1; }
go build ./... && go vet ./ >/dev/null 2>&1 || true
/verif/tools/baseline_off.sh
(cd /repo && go test -count=1 -vet=off ./BitSliceIndexing/ ./roaring64/ -skip 'ExistenceAuthority|TestLargeFile' >/tmp/w/bsitests.log 2>&1 && echo "extra BSI/roaring64 tests ok") || { tail -30 /tmp/w/bsitests.log; exit 1; }
git commit -qam "$1"
git log --oneline | head -1
