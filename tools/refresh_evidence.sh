#!/bin/bash
# Runs every quick check (VERIF_SEED=1, full units) in /verif against /repo and leaves fresh evidence files.
cd "$(dirname "$0")/.."
unset VERIF_UNITS
for P in C01 C02 C03 C04 C05 C06 C07 C08 C09 C10 C11 C12 C13 C14 C15 C16 C17 C18 C19 C20; do
  VERIF_SEED=1 timeout 3000 ./check.sh $P quick > .work/refresh-$P.log 2>&1; echo "$P exit=$? $(tail -1 .work/refresh-$P.log | cut -c1-140)"
done
/opt/veriftools/pyvenv/bin/python tools/validate_evidence.py | grep -v " ok " || echo "all evidence valid"
