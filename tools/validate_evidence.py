#!/usr/bin/env python3
import json,sys,glob,os
try:
    import jsonschema
except ImportError:
    print("jsonschema not available in this python; run with /opt/veriftools/pyvenv/bin/python"); sys.exit(2)
V=os.path.dirname(os.path.dirname(os.path.abspath(__file__)))
schema=json.load(open('/root/.vp/EVIDENCE.schema.json'))
man=json.load(open(os.path.join(V,'MANIFEST.json')))
bad=0
for c in man['checks']:
    p=c['evidence_file']
    try:
        e=json.load(open(p)); jsonschema.validate(e,schema)
        assert e['level']==c['level_claimed']['category'], "level mismatch"
        print(c['property_id'],'ok',e['tier'],'evals',e['coverage']['evaluations'],'distinct',e['coverage']['distinct_nontrivial'],'wall',round(e['wall_s'],1))
    except Exception as ex:
        bad+=1; print(c['property_id'],'INVALID',str(ex)[:200])
sys.exit(1 if bad else 0)
