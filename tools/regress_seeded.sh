#!/bin/bash
# usage: regress_seeded.sh <seed> [parallel] [name-glob]
# Re-runs, for every seeded change, the quick check of the property it was written against (from committed /verif, against a
# scratch worktree of /repo HEAD + patch) at the given VERIF_SEED and prints one line per change: caught / MISSED / other.
# Result table: seeded/REGRESSION-seed<seed>.txt (written in the directory this script lives in).
SEED=${1:-5}; PAR=${2:-3}; GLOB=${3:-*}
HERE=$(cd "$(dirname "$0")/.." && pwd)
OUT=$HERE/seeded/REGRESSION-seed$SEED.txt
one() {
  d=$1; n=$(basename "$d"); p=${n%%-*}
  [ -f "$d/patch.diff" ] || exit 0
  S=$(date +%s)
  VERIF_SEED=$SEED VERIF_WORKERS=${VERIF_WORKERS:-5} AGAINST_LINES=3 "$HERE/tools/against.sh" "$d/patch.diff" "$p" quick > "/var/tmp/regress-$n.log" 2>&1; rc=$?
  E=$(( $(date +%s) - S ))
  case $rc in 1) v=caught;; 0) v=MISSED;; *) v="other(rc=$rc)";; esac
  echo "$n $p seed=$SEED $v wall=${E}s :: $(grep -m1 ' x ' /var/tmp/regress-$n.log | sed 's/^ *//' | cut -c1-100)"
  rm -f "/var/tmp/regress-$n.log"
}
export -f one; export SEED HERE
ls -d "$HERE"/seeded/C[0-9][0-9]-$GLOB/ | xargs -P "$PAR" -I{} bash -c 'one {}' | tee "$OUT.tmp"
sort "$OUT.tmp" > "$OUT"; rm -f "$OUT.tmp"
echo "caught: $(grep -c ' caught ' "$OUT")  missed: $(grep -c ' MISSED ' "$OUT")  other: $(grep -c ' other' "$OUT")"
