#!/bin/bash
# usage: against.sh <git-rev-of-/repo | patch-file> <Cxx> [tier]
# Runs a check against a scratch worktree of /repo (at a revision, or HEAD + patch) without touching /repo or /verif/evidence.
# The hook commits are cherry-picked/kept automatically when a patch is given (worktree of HEAD).
set -u
WHAT=$1; PROP=$2; TIER=${3:-quick}
S=$(mktemp -d /tmp/verif-scratch.XXXXXX)
cleanup() { git -C /repo worktree remove --force "$S/repo" >/dev/null 2>&1; rm -rf "$S"; }
trap cleanup EXIT
if [ -f "$WHAT" ]; then
  git -C /repo worktree add -q --detach "$S/repo" HEAD || exit 2
  git -C "$S/repo" apply "$(readlink -f "$WHAT")" || { echo "patch does not apply"; exit 2; }
else
  git -C /repo worktree add -q --detach "$S/repo" "$WHAT" || exit 2
  # make sure the hook files exist at that revision (copy the add-only hook files from HEAD)
  for f in verif_hooks.go verif_trace_on.go verif_trace_off.go roaring64/verif_hooks.go roaring64/verif_trace_on.go roaring64/verif_trace_off.go; do
    [ -f "$S/repo/$f" ] || cp "/repo/$f" "$S/repo/$f"
  done
fi
mkdir -p "$S/vd" "$S/verif"; [ -f "$S/verif/check.sh" ] || git -C /verif archive HEAD | tar -x -C "$S/verif"; cp /verif/KNOWN_FINDINGS.txt "$S/vd/" 2>/dev/null
VERIF_REPO="$S/repo" VERIF_DIR="$S/vd" timeout ${AGAINST_TIMEOUT:-1500} "$S/verif/check.sh" "$PROP" "$TIER" 2>&1 | sed "s#$S/vd#<scratch>#g" | grep -E "^VIOLATION|signature:|^C[0-9]+ |KNOWN|INCONCLUSIVE|BUILD|violating" | sort | uniq -c | sort -rn | head -${AGAINST_LINES:-25}
exit ${PIPESTATUS[0]}
