#!/usr/bin/env python3
"""pick_hunks.py <patch> <file>:<hunkno>[,<hunkno>...] ...   -> prints a patch with only the selected hunks (1-based per file)"""
import sys,re
patch=open(sys.argv[1]).read().split('\n')
want={}
for a in sys.argv[2:]:
    f,h=a.split(':'); want[f]=set(int(x) for x in h.split(','))
files=[];cur=None
for l in patch:
    if l.startswith('diff --git'):
        cur={'hdr':[l],'hunks':[],'name':l.split(' b/')[1]}; files.append(cur); hk=None
    elif l.startswith('@@'):
        hk=[l]; cur['hunks'].append(hk)
    elif cur is not None:
        (hk if cur['hunks'] else cur['hdr']).append(l)
out=[]
for f in files:
    if f['name'] in want:
        out+=f['hdr']
        for i,h in enumerate(f['hunks'],1):
            if i in want[f['name']]: out+=h
print('\n'.join(out))
