#!/bin/bash
# usage: recheck_seeded.sh <seeded-name> <Cxx> [Cxx...]  -- re-runs quick checks (committed /verif) against an already vetted
# seeded change and rewrites its results.txt / caught_by_<Cxx>.txt (used after a check was strengthened).
set -u
NAME=$1; shift
D=/verif/seeded/$NAME; [ -f "$D/patch.diff" ] || { echo "no such seeded change"; exit 2; }
S=$(mktemp -d /tmp/verif-recheck.XXXXXX)
cleanup() { git -C /repo worktree remove --force "$S/repo" >/dev/null 2>&1; rm -rf "$S"; }
trap cleanup EXIT
git -C /repo worktree add -q --detach "$S/repo" HEAD || exit 2
git -C "$S/repo" apply "$D/patch.diff" || exit 2
mkdir -p "$S/vd" "$S/verif"; git -C /verif archive HEAD | tar -x -C "$S/verif"; cp /verif/KNOWN_FINDINGS.txt "$S/vd/"
declare -A OLD
if [ -f "$D/results.txt" ]; then for t in $(cat "$D/results.txt"); do OLD[${t%%:*}]=$t; done; fi
for P in "$@"; do
  VERIF_REPO="$S/repo" VERIF_DIR="$S/vd" timeout 2400 "$S/verif/check.sh" "$P" quick > "$S/check_$P.log" 2>&1; RC=$?
  grep -E "^ +[0-9]+ x " "$S/check_$P.log" | sort -rn | head -8 > "$D/caught_by_$P.txt"
  OLD[$P]="$P:exit=$RC"
  echo "$NAME $P exit=$RC $(grep -E '^C[0-9]+ ' "$S/check_$P.log" | tail -1)"
done
echo " ${OLD[@]}" > "$D/results.txt"
