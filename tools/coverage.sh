#!/bin/bash
# One-off measurement (not a registered check): statement coverage of the library packages by the quick tier.
# usage: tools/coverage.sh [Cxx ...]   -> prints the total and the functions never entered
set -u
cd "$(dirname "$0")/.." || exit 2
. ./env.sh
W=$(mktemp -d /var/tmp/verif-cov.XXXXXX); mkdir -p "$W/bin" "$W/data" "$W/vd"; cp KNOWN_FINDINGS.txt "$W/vd/"
trap 'rm -rf "$W"' EXIT
sed "s#=> /repo#=> $VERIF_REPO#" harness/go.mod > "$W/go.mod"; cp harness/go.sum "$W/go.sum"
(cd harness && $GO build -modfile="$W/go.mod" -tags verif -cover -coverpkg='github.com/RoaringBitmap/...,verifharness' -o "$W/bin/verifcheck-plain" .) || exit 2
cp "$W/bin/verifcheck-plain" "$W/bin/verifcheck-race"; cp "$W/bin/verifcheck-plain" "$W/bin/verifcheck-checkptr"
PROPS=${*:-C01 C02 C03 C04 C05 C06 C07 C08 C09 C10 C11 C12 C13 C14 C15 C16 C17 C18 C19 C20}
for P in $PROPS; do GOCOVERDIR="$W/data" VERIF_DIR="$W/vd" "$W/bin/verifcheck-plain" run $P quick "$W/bin" 2>&1 | tail -1; done
(cd harness && $GO tool covdata textfmt -i="$W/data" -o "$W/cover.txt" && $GO tool cover -func="$W/cover.txt" | grep -v "verifharness\|_test.go" > "$W/func.txt")
[ -n "${COV_OUT:-}" ] && mkdir -p "$COV_OUT" && cp "$W/func.txt" "$W/cover.txt" "$COV_OUT/"
tail -1 "$W/func.txt"; echo "functions never entered:"; awk '$3=="0.0%"' "$W/func.txt"
