#!/bin/bash
# Runs the repository's baseline suite with the verif guard OFF and compares with /root/.vp/BASELINE.json.
export GOFLAGS=-mod=mod GOPROXY=off
REPO=${VERIF_REPO:-/repo}
OUT=$(mktemp /var/tmp/verif-baseline.XXXXXX.json)
trap 'rm -f "$OUT"' EXIT
(cd "$REPO" && go test -mod=mod -json -vet=off -count=1 -timeout 25m ./... ) > "$OUT" 2>/dev/null
python3 - "$OUT" <<'PY'
import json,sys
res={}
for l in open(sys.argv[1]):
    try: e=json.loads(l)
    except Exception: continue
    if e.get('Test') and e.get('Action') in('pass','fail','skip'):
        res[e['Package']+'::'+e['Test']]=e['Action']
base=json.load(open('/root/.vp/BASELINE.json'))
want=base['stable_pass']
missing=[t for t in want if res.get(t)!='pass']
print("baseline tests expected=%d passing_now=%d missing_or_failing=%d total_pass=%d total_fail=%d"%(len(want),len(want)-len(missing),len(missing),sum(v=='pass' for v in res.values()),sum(v=='fail' for v in res.values())))
for t in missing[:20]: print("  NOT PASSING:",t,res.get(t))
sys.exit(1 if missing else 0)
PY
