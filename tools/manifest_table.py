NOT_BUILT = {}
TRUST = "Trusted: the Go toolchain, the harness's interval-set reference model (cross-checked against brute force before every run), the read-only hook view in /repo (build tag verif). Only executions produced by the seeded workloads are judged."
chk("C02", "exploration", "runtime monitoring: reference-model replay of seeded and small-scope-exhaustive mutation histories, state read through a hook view",
    "Every step of thousands of generated mutation histories (all storage forms, COW on/off, threshold ratchets, and every history of length <=2/3 over two boundary domains) is compared with an independent interval-set model through the raw container data and through the public API. Exploration, not proof: it judges the histories it ran.",
    TRUST, "DESIGN.md section 5 C02")
