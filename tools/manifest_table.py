NOT_BUILT = {}
TRUST = "Trusted: the Go toolchain, the harness's interval-set reference model (cross-checked against brute force before every run), the read-only hook view in /repo (build tag verif). Only executions produced by the seeded workloads are judged."
chk("C02", "exploration", "runtime monitoring: reference-model replay of seeded and small-scope-exhaustive mutation histories, state read through a hook view",
    "Every step of thousands of generated mutation histories (all storage forms, COW on/off, threshold ratchets, and every history of length <=2/3 over two boundary domains) is compared with an independent interval-set model through the raw container data and through the public API. Exploration, not proof: it judges the histories it ran.",
    TRUST, "DESIGN.md section 5 C02")
chk("C01", "exploration", "runtime monitoring: differential execution of every op form against an interval-set model, operand storage hashed through a hook view, kind-pairing coverage matrix",
    "Thousands of representation-aware operand pairs (all 3x3 chunk-kind pairings, 11 storage forms incl. copy-on-write and zero-copy, key-layout relations, threshold-steered results) run And/Or/Xor/AndNot static, in-place (clone, COW clone, COW argument, zero-copy receiver, same object) and the three shortcuts; results and operands are compared with the model via raw container data. All 65536 ordered pairs of subsets of an 8-value boundary domain are enumerated. The observed kind x kind x op x form matrix is reported.",
    TRUST, "DESIGN.md section 5 C01")
