#!/usr/bin/env python3
"""Generates /verif/MANIFEST.json from the table below (kept in one place so that it is always schema-valid)."""
import json, os, subprocess, sys
V = os.path.dirname(os.path.dirname(os.path.abspath(__file__)))
def hooks_commits():
    try:
        out = subprocess.check_output(['git','-C','/repo','log','--format=%H %s'], text=True)
        return [l.split()[0] for l in out.splitlines() if ' verif hooks:' in ' '+l]
    except Exception:
        return []
CHECKS = {}
def chk(pid, level, technique, text, note, ref):
    CHECKS[pid] = dict(level=level, technique=technique, text=text, note=note, ref=ref)

exec(open(os.path.join(V,'tools','manifest_table.py')).read())

props=[json.loads(l)['id'] for l in open(os.path.join(V,'properties.jsonl'))]
man = {
 "version": 1,
 "setup_cmd": "./setup.sh",
 "hooks": {
  "guard": "verif",
  "enable": "go build -tags verif (the harness module /verif/harness is built with -tags verif against /repo through a replace directive)",
  "baseline_off_cmd": "/verif/tools/baseline_off.sh",
  "source_commits": hooks_commits(),
  "add_only": True,
 },
 "engines": [{"name": "verifcheck", "path": "/verif/harness", "serves_properties": sorted(CHECKS), "kind_free_text": "Go monitoring harness: reference-model monitors over hooked state, guard memory, race detector / checkptr builds, per-case child processes with journals"}],
 "checks": [],
 "notes": "Runtime monitoring only. Exit 0 = held on everything explored, 1 = VIOLATION, 2 = inconclusive/infrastructure. KNOWN_FINDINGS.txt lists genuine defects (known:/fixed:). See DESIGN.md.",
 "not_applicable": [],
}
for pid in props:
    if pid in CHECKS:
        c = CHECKS[pid]
        man["checks"].append({
          "property_id": pid,
          "quick_cmd": f"./check.sh {pid} quick",
          "thorough_cmd": f"./check.sh {pid} thorough",
          "evidence_file": f"/verif/evidence/{pid}.json",
          "replay_cmd_template": f"./check.sh {pid} replay {{path}}",
          "engine": "verifcheck",
          "level_claimed": {"category": c['level'], "text": c['text'], "design_ref": c['ref']},
          "level_note": c['note'],
          "technique": c['technique'],
        })
    else:
        man["not_applicable"].append({"property_id": pid, "reason": NOT_BUILT.get(pid, "monitor not built yet in this session (design in DESIGN.md section 5); nothing is claimed for it")})
json.dump(man, open(os.path.join(V,'MANIFEST.json'),'w'), indent=1)
try:
    import jsonschema
    jsonschema.validate(man, json.load(open('/root/.vp/MANIFEST.schema.json')))
    print("MANIFEST.json valid;", len(man['checks']), "checks,", len(man['not_applicable']), "not claimed")
except ImportError:
    print("written (jsonschema not available for validation)")
