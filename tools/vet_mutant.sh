#!/bin/bash
# usage: vet_mutant.sh <srcdir> <k> <name> <Cxx> [more Cxx...]
# Confirms a sub-agent's mutant (patch applies to /repo HEAD, builds, suite unchanged, demo fails with / passes without),
# stores it under /verif/seeded/<name>/ and runs the given checks (quick) against it.
set -u
SRC=$1; K=$2; NAME=$3; shift 3
export GOFLAGS=-mod=mod GOPROXY=off
PATCH=$SRC/mutant$K.patch; DEMO=$SRC/mutant${K}_demo_test.go.txt
[ -f "$PATCH" ] && [ -f "$DEMO" ] || { echo "missing deliverables"; exit 2; }
S=$(mktemp -d /tmp/verif-vet.XXXXXX)
cleanup() { git -C /repo worktree remove --force "$S/repo" >/dev/null 2>&1; rm -rf "$S"; }
trap cleanup EXIT
git -C /repo worktree add -q --detach "$S/repo" HEAD || exit 2
cd "$S/repo"
# where does the demo belong?
PKGDIR=.
head -5 "$DEMO" | grep -qi "roaring64" && PKGDIR=roaring64
head -12 "$DEMO" | grep -qi "BitSliceIndexing" && PKGDIR=BitSliceIndexing
grep -q "^package roaring64" "$DEMO" && PKGDIR=roaring64
grep -q "^package BitSliceIndexing\|^package bitsliceindexing" "$DEMO" && PKGDIR=BitSliceIndexing
# package roaring + the unqualified type BSI = the BitSliceIndexing directory (its package is named roaring too)
grep -q "^package roaring$" "$DEMO" && grep -q "[^.A-Za-z]BSI\b" "$DEMO" && ! grep -q "roaring64\." "$DEMO" && PKGDIR=BitSliceIndexing
[ -n "${VET_PKGDIR:-}" ] && PKGDIR=$VET_PKGDIR
cp "$DEMO" "$PKGDIR/zz_mutant_demo_test.go"
TESTS=$(grep -o "^func Test[A-Za-z0-9_]*" "$PKGDIR/zz_mutant_demo_test.go" | sed 's/func //' | paste -sd'|')
echo "== demo on clean tree ($PKGDIR: $TESTS)"
go test -vet=off -count=1 -run "^($TESTS)\$" ./$PKGDIR/ > "$S/demo_clean.log" 2>&1; RC_CLEAN=$?
tail -3 "$S/demo_clean.log"
git apply --check "$PATCH" 2>"$S/apply.err" || { echo "PATCH DOES NOT APPLY to HEAD:"; cat "$S/apply.err"; exit 3; }
git apply "$PATCH"
go build ./... || { echo "does not build"; exit 3; }
echo "== demo with mutant"
go test -vet=off -count=1 -run "^($TESTS)\$" ./$PKGDIR/ > "$S/demo_mut.log" 2>&1; RC_MUT=$?
tail -5 "$S/demo_mut.log" | cut -c1-200
rm "$PKGDIR/zz_mutant_demo_test.go"
echo "== baseline suite with mutant"
VERIF_REPO="$S/repo" /verif/tools/baseline_off.sh; RC_BASE=$?
echo "== BSI / roaring64 tests that the baseline never reaches (with mutant)"
(go test -count=1 -vet=off ./BitSliceIndexing/ ./roaring64/ -skip 'ExistenceAuthority|TestLargeFile' > "$S/bsi.log" 2>&1) || { tail -15 "$S/bsi.log"; RC_BASE=9; }
echo "demo_clean_rc=$RC_CLEAN demo_mutant_rc=$RC_MUT baseline_rc=$RC_BASE"
if [ $RC_CLEAN -ne 0 ] || [ $RC_MUT -eq 0 ] || [ $RC_BASE -ne 0 ]; then echo "MUTANT REJECTED"; exit 4; fi
D=/verif/seeded/$NAME; mkdir -p "$D"
cp "$PATCH" "$D/patch.diff"; cp "$DEMO" "$D/demo_test.go.txt"; cp "$SRC/mutant$K.md" "$D/notes.md" 2>/dev/null
git diff > "$S/full.diff"
RESULTS=""
for P in "$@"; do
  mkdir -p "$S/vd" "$S/verif"; [ -f "$S/verif/check.sh" ] || git -C /verif archive HEAD | tar -x -C "$S/verif"; cp /verif/KNOWN_FINDINGS.txt "$S/vd/"
  echo "== check $P quick against the mutant"
  VERIF_REPO="$S/repo" VERIF_DIR="$S/vd" timeout 1800 "$S/verif/check.sh" "$P" quick > "$S/check_$P.log" 2>&1; RC=$?
  grep -E "^ +[0-9]+ x |^C[0-9]+ |INCONCL|BUILD" "$S/check_$P.log" | head -8 | cut -c1-160
  RESULTS="$RESULTS $P:exit=$RC"
  grep -E "^ +[0-9]+ x " "$S/check_$P.log" | sort -rn | head -8 > "$D/caught_by_$P.txt"
done
echo "RESULT $NAME:$RESULTS"
echo "$RESULTS" > "$D/results.txt"
