#!/bin/bash
# usage: sweep.sh <tier> <seed> [Cxx ...]   -- runs the checks (default: all) and prints one summary line each.
# Uses a private VERIF_DIR so that committed evidence is not touched.
TIER=${1:-quick}; SEED=${2:-1}; shift 2
HERE=$(cd "$(dirname "$0")/.." && pwd)
PROPS=${*:-C01 C02 C03 C04 C05 C06 C07 C08 C09 C10 C11 C12 C13 C14 C15 C16 C17 C18 C19 C20}
VD=$(mktemp -d /var/tmp/verif-sweep.XXXXXX); cp "$HERE/KNOWN_FINDINGS.txt" "$VD/"
for P in $PROPS; do
  S=$(date +%s)
  VERIF_SEED=$SEED VERIF_DIR=$VD "$HERE/check.sh" $P $TIER > "$VD/$P.log" 2>&1; RC=$?
  E=$(( $(date +%s) - S ))
  echo "sweep tier=$TIER seed=$SEED $P exit=$RC wall=${E}s :: $(grep -E "^C[0-9]+ " "$VD/$P.log" | tail -1)"
  if [ $RC -ne 0 ]; then grep -E "^VIOLATION|^ +[0-9]+ x |INCONCLUSIVE|BUILD" "$VD/$P.log" | head -12; mkdir -p "$HERE/sweep-failures"; cp "$VD/$P.log" "$HERE/sweep-failures/$P-$TIER-$SEED.log" 2>/dev/null; cp -r "$VD/replays" "$HERE/sweep-failures/replays-$P-$TIER-$SEED" 2>/dev/null; fi
done
rm -rf "$VD"
